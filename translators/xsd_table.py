"""Regenerates lean/Pyc/Generated/SchemaTable.lean from collada/resources/schema-1.4.1.xml:
for every (parent element, element) context reachable from <COLLADA> through the vocabulary pycollada emits,
the content model as a regular expression over child element names and the list of required attributes.

Supported XSD subset: element (local, ref, substitution groups), complexType (named, anonymous), sequence, choice,
group ref, complexContent/simpleContent extension, minOccurs/maxOccurs, xs:any (translated to "no constraint": the context
is left out of the table). Identity constraints and simple-type facets are not translated.
"""
import os
import xml.etree.ElementTree as ET

XS = '{http://www.w3.org/2001/XMLSchema}'
EMITTED = set('''COLLADA asset contributor author authoring_tool comments copyright source_data created keywords modified revision subject title unit up_axis
library_cameras library_controllers library_effects library_geometries library_images library_lights library_materials library_nodes library_visual_scenes library_animations scene instance_visual_scene
camera optics technique_common perspective orthographic xfov yfov aspect_ratio znear zfar xmag ymag light directional ambient point spot color constant_attenuation linear_attenuation quadratic_attenuation falloff_angle falloff_exponent
image init_from effect profile_COMMON newparam surface format sampler2D source minfilter magfilter technique phong lambert blinn constant emission diffuse specular shininess reflective reflectivity transparent transparency index_of_refraction float texture extra
material instance_effect geometry mesh float_array IDREF_array Name_array accessor param vertices input triangles lines polylist polygons vcount p
visual_scene node translate rotate scale matrix lookat instance_geometry bind_material instance_material bind_vertex_input instance_camera instance_light instance_node instance_controller'''.split())


class Tr(object):
    def __init__(self, path):
        self.root = ET.parse(path).getroot()
        self.el = {e.get('name'): e for e in self.root.findall(XS + 'element')}
        self.ct = {e.get('name'): e for e in self.root.findall(XS + 'complexType')}
        self.gr = {e.get('name'): e for e in self.root.findall(XS + 'group')}
        self.subst = {}
        for e in self.root.findall(XS + 'element'):
            if e.get('substitutionGroup'):
                self.subst.setdefault(e.get('substitutionGroup'), []).append(e.get('name'))
        self.table = {}       # (parent, name) -> (regex, required attrs) or None for unconstrained
        self.any = set()

    def decl(self, el):
        return self.el[el.get('ref')] if el.get('ref') else el

    def ctype(self, el):
        el = self.decl(el)
        t = el.get('type')
        if t:
            return self.ct.get(t)
        return el.find(XS + 'complexType')

    # regex AST: ('eps',) ('chr', name) ('seq', [..]) ('alt', [..]) ('star', r)
    def occurs(self, node, r):
        lo = int(node.get('minOccurs', '1'))
        hi = node.get('maxOccurs', '1')
        if hi == 'unbounded':
            return ('seq', [r] * lo + [('star', r)]) if lo else ('star', r)
        hi = int(hi)
        opt = ('alt', [('eps',), r])
        return ('seq', [r] * lo + [opt] * (hi - lo)) if (lo, hi) != (1, 1) else r

    def particle(self, node, children, ctx):
        tg = node.tag.replace(XS, '')
        if tg == 'element':
            d = self.decl(node)
            name = d.get('name')
            names = [name] if d.get('abstract') != 'true' else []
            names += self.subst.get(name, [])
            for n in names:
                children.append((n, self.el[n] if n != name else node))
            r = ('alt', [('chr', n) for n in names]) if len(names) != 1 else ('chr', names[0])
            return self.occurs(node, r)
        if tg in ('sequence', 'choice'):
            parts = [self.particle(c, children, ctx) for c in node if c.tag.replace(XS, '') in ('element', 'sequence', 'choice', 'group', 'any')]
            r = ('seq', parts) if tg == 'sequence' else ('alt', parts)
            return self.occurs(node, r)
        if tg == 'group':
            g = self.gr[node.get('ref')]
            inner = [c for c in g if c.tag.replace(XS, '') in ('sequence', 'choice')][0]
            return self.occurs(node, self.particle(inner, children, ctx))
        if tg == 'any':
            self.any.add(ctx)
            return self.occurs(node, ('chr', '*any*'))
        raise ValueError(tg)

    def content(self, ct, children, ctx):
        """regex of a complexType's element content (eps for simple / empty content) and its required attributes"""
        req = []
        parts = []
        if ct is None:
            return ('eps',), req
        for c in ct:
            tg = c.tag.replace(XS, '')
            if tg in ('sequence', 'choice', 'group'):
                parts.append(self.particle(c, children, ctx))
            elif tg == 'attribute':
                if c.get('use') == 'required':
                    req.append(c.get('name') or c.get('ref'))
            elif tg in ('complexContent', 'simpleContent'):
                for ext in c:
                    base = ext.get('base')
                    if base in self.ct:
                        r, q = self.content(self.ct[base], children, ctx)
                        parts.append(r)
                        req += q
                    for cc in ext:
                        t2 = cc.tag.replace(XS, '')
                        if t2 in ('sequence', 'choice', 'group'):
                            parts.append(self.particle(cc, children, ctx))
                        elif t2 == 'attribute' and cc.get('use') == 'required':
                            req.append(cc.get('name') or cc.get('ref'))
        return (('seq', parts) if len(parts) != 1 else parts[0]) if parts else ('eps',), req

    def walk(self, parent, name, el):
        key = (parent, name)
        if key in self.table:
            return
        children = []
        r, req = self.content(self.ctype(el), children, key)
        self.table[key] = (r, sorted(set(req)))
        for cn, cel in children:
            if cn in EMITTED:
                self.walk(name, cn, cel)

    def run(self):
        self.walk('', 'COLLADA', self.el['COLLADA'])
        for k in self.any:
            if k in self.table:
                self.table[k] = (None, self.table[k][1])
        return self.table


def simp(r):
    k = r[0]
    if k in ('seq', 'alt'):
        parts = [simp(p) for p in r[1]]
        if k == 'seq':
            parts = [p for p in parts if p != ('eps',)]
            flat = []
            for p in parts:
                flat.extend(p[1] if p[0] == 'seq' else [p])
            if not flat:
                return ('eps',)
            return flat[0] if len(flat) == 1 else ('seq', flat)
        flat = []
        for p in parts:
            flat.extend(p[1] if p[0] == 'alt' else [p])
        return flat[0] if len(flat) == 1 else ('alt', flat)
    if k == 'star':
        return ('star', simp(r[1]))
    return r


def lean(r):
    k = r[0]
    if k == 'eps':
        return '1'
    if k == 'chr':
        return 'char "%s"' % r[1]
    if k == 'star':
        return 'star (%s)' % lean(r[1])
    if k == 'seq':
        return ' * '.join('(%s)' % lean(p) if p[0] == 'alt' else lean(p) for p in r[1])
    if k == 'alt':
        return ' + '.join('(%s)' % lean(p) if p[0] in ('alt',) else lean(p) for p in r[1])
    raise ValueError(k)


def ident(parent, name):
    return 'cm_%s_%s' % (parent or 'root', name)


def extract(repo):
    return Tr(os.path.join(repo, 'collada', 'resources', 'schema-1.4.1.xml')).run()


def generate(repo, outdir):
    table = extract(repo)
    defs, cases, attrs = [], [], []
    for (parent, name), (r, req) in sorted(table.items()):
        if r is not None:
            defs.append('def %s : RE := %s' % (ident(parent, name), lean(simp(r))))
            cases.append('  | "%s", "%s" => some %s' % (parent, name, ident(parent, name)))
        if req:
            attrs.append('  | "%s", "%s" => [%s]' % (parent, name, ', '.join('"%s"' % a for a in req)))
    text = '''/- GENERATED by translators/xsd_table.py from collada/resources/schema-1.4.1.xml — do not edit. -/
import Mathlib.Computability.RegularExpressions

namespace Pyc.Generated.SchemaTable
open RegularExpression

abbrev RE := RegularExpression String

%s

/-- content model of element `name` occurring as a child of `parent` (none: not constrained here) -/
def cm : String → String → Option RE
%s
  | _, _ => none

/-- attributes the schema requires on element `name` under `parent` -/
def required : String → String → List String
%s
  | _, _ => []

end Pyc.Generated.SchemaTable
''' % ('\n'.join(defs), '\n'.join(cases), '\n'.join(attrs))
    os.makedirs(outdir, exist_ok=True)
    path = os.path.join(outdir, 'SchemaTable.lean')
    if not os.path.exists(path) or open(path).read() != text:
        with open(path, 'w') as f:
            f.write(text)
    return path


if __name__ == '__main__':
    t = extract('/repo')
    print(len(t))
    for k in [('geometry', 'mesh'), ('visual_scene', 'node'), ('mesh', 'source'), ('technique', 'phong'), ('library_lights', 'light'), ('technique_common', 'point'), ('', 'COLLADA')]:
        print(k, lean(simp(t[k][0])) if t[k][0] else None, t[k][1])
