#!/venv/bin/python
"""check.py <PID> [--tier quick|thorough] [--replay <file>]   (see vlib/core.py)"""
import argparse
import importlib
import json
import os
import sys
import traceback

sys.path.insert(0, os.path.dirname(os.path.abspath(__file__)))
from vlib import core  # noqa


def main():
    ap = argparse.ArgumentParser()
    ap.add_argument('pid')
    ap.add_argument('--tier', default=os.environ.get('VERIF_TIER', 'quick'))
    ap.add_argument('--replay')
    a = ap.parse_args()
    pid = a.pid.upper()
    seed = int(os.environ.get('VERIF_SEED', '0'))
    mod = importlib.import_module('props.' + pid.lower())
    core.use_repo()

    if a.replay:
        rec = json.load(open(a.replay))
        ctx = core.Ctx(pid, 'quick', rec.get('seed', 0))
        still = mod.replay(ctx, rec['replay'])
        print('replay %s: %s' % (a.replay, 'property FAILS on this case' if still else 'case passes'))
        return 1 if still else 0

    ctx = core.Ctx(pid, a.tier, seed)
    # 1. translators regenerate Pyc/Generated/* from the current source
    tproblems = []
    lk = core._lock()       # regenerating the tables and building against them is one step (checks may run side by side)
    for t in getattr(mod, 'TRANSLATORS', []):
        try:
            importlib.import_module('translators.' + t).generate(core.REPO, os.path.join(core.LEAN, 'Pyc', 'Generated'))
        except Exception as e:  # the source no longer has the shape the translator reads: the tie is broken, not the property
            tproblems.append('translator %s could not regenerate its model from the source: %s: %s' % (t, type(e).__name__, e))
    # 2. proofs: build the property's theorem file and whatever it imports
    prop_mods = list(getattr(mod, 'LEAN_PROPS', ['Pyc.Props.' + pid]))
    targets = prop_mods + list(getattr(mod, 'LEAN_MODULES', []))
    # whatever the property's drivers import has to be built as well (a fresh checkout has no .lake)
    import glob
    import re
    for drv in sorted(glob.glob(os.path.join(core.LEAN, 'drv', pid + '*.lean'))):
        for m in re.findall(r'^import\s+(Pyc[\w.]*)', open(drv).read(), re.M):
            if m not in targets:
                targets.append(m)
    try:
        ok, log, failed = core.lake_build(targets, have_lock=True)
    finally:
        lk.close()
    thms, discharged, problems = [], 0, list(tproblems)
    if not ok:
        problems.append('lake build failed for %s: %s' % (failed or targets, log[-1500:]))
    else:
        thms = []
        for pm in prop_mods:
            t, alog = core.audit(pid, pm)
            if t is None:
                problems.append('axiom audit of %s failed: %s' % (pm, alog[-1500:]))
            else:
                thms += t
        thms = [(t, ax) for t, ax in thms if t.startswith('Pyc.Props.%s.' % pid)]
        for name, ax in thms:
            if set(ax) <= core.ALLOWED_AXIOMS:
                discharged += 1
            else:
                problems.append('theorem %s depends on axioms %s' % (name, ax))
        hits = core.forbidden_tokens()
        if hits:
            problems.append('forbidden tokens in Lean sources: %s' % hits)
        if ctx.thorough:
            okc, clog = core.leanchecker(targets)
            ctx.notes['leanchecker'] = 'ok' if okc else clog
            if not okc:
                problems.append('leanchecker rejected: ' + clog)
    ctx.lean_ok = not problems
    ctx.notes['theorems'] = [t for t, _ in thms]
    # 3. correspondence + direct oracle on the implementation
    mod.run(ctx)
    # 4. a broken proof obligation without a failing input is still a violation
    if problems and not any(v['found_input'] for v in ctx.violations):
        ctx.violation('lean:' + pid, 'proof obligation no longer checks: ' + ' | '.join(problems),
                      dict(kind='proof-obligation', problems=problems), found_input=False)
    elif problems:
        print('note: the proof obligations no longer check either (explained by the failing input below): %s' % ' | '.join(problems)[:300].replace('\n', ' '))
    obligations = max(len(thms), 1)
    return core.finish(ctx, (obligations, discharged if thms else 0),
                       'cd lean && lake build %s && lean Audit/<module>.lean  (axioms of every public theorem of %s)' % (' '.join(targets), ', '.join(prop_mods)))


if __name__ == '__main__':
    try:
        sys.exit(main())
    except core.Infra as e:
        print('INFRA: %s' % e)
        sys.exit(2)
    except Exception:
        traceback.print_exc()
        sys.exit(2)
