"""C17 — queries are pure and repeatable.

Proof: Pyc/Props/C17.lean (memoised queries: query_spec, query_repeat, history_pure, save_after_queries; bound arrays on a heap:
bound_owns_arrays, bound_is_transformed; negatives leaky_not_pure, alias_leaks).
Correspondence: triangulation of real polylists asked repeatedly (answers, cache filled, vcounts untouched) vs the memo machine;
writes into the vertex array of a real bound primitive vs the heap model.
Direct oracle: batches of read-only operations (scene traversal, binding, shapes(), triangleset(), indexing, str/repr, len,
getInputList, image data) in random order and multiplicity, interleaved with saves, on constructed, reloaded and shipped
documents: public snapshot + array shape/dtype/contiguity before and after, written bytes equal to those of an identical
twin that was never queried, repeated queries equal; writes into bound vertex/normal arrays leave the unbound geometry unchanged.
"""
import copy
import io
import random

import numpy

from vlib import core, snap, modelgen
from props import c02, c03

PID = 'C17'
LEAN_MODULES = ['Pyc.Model.Query']
META = dict(
    level_text=('Proof: Pyc/Props/C17.lean proves for memoised queries (the triangulation caches of Polylist / BoundPolylist, the data cache of CImage) that for '
                'every sequence of queries, in any order and multiplicity, the data is unchanged, the cache stays consistent and every answer equals the fresh '
                'computation (history_pure), hence repeated queries are equal (query_repeat) and a save after any history writes what it would have written before '
                '(save_after_queries); and for bound primitives, on an explicit heap of arrays, that no write into the bound array reaches the unbound one '
                '(bound_owns_arrays). That the real queries have no other hidden state is decided by exploration with snapshots and twin documents.'),
    level_note=('Trusted: Lean kernel + standard axioms; Pyc/Model/Query.lean. PARTIAL: "no other hidden state exists" cannot be exhibited by a functional model; it is '
                'established only by the snapshot / twin comparison over random query histories (public attributes, array shape, dtype, flags, written bytes). '
                'Texcoord and index arrays of bound primitives are shared views by design; the property only claims vertex and normal ownership.'),
    technique='Lean 4 invariant proof for a memoised-query machine and a heap model of array ownership + correspondence on real polylists and bound primitives + snapshot/twin exploration of random query histories',
)


def meta(doc):
    out = []
    for g in doc.geometries:
        for k, s in g.sourceById.items():
            if hasattr(s, 'data'):
                out.append(('src', g.id, str(k), tuple(s.data.shape), str(s.data.dtype), bool(s.data.flags['C_CONTIGUOUS']), tuple(s.components)))
        for p in g.primitives:
            # the array views of a primitive ARE its sources' arrays (same memory, same dtype): binding must not replace them
            for nm in ('vertex', 'normal'):
                arr = getattr(p, nm, None)
                if arr is not None:
                    owners = [str(k) for k, s in g.sourceById.items() if hasattr(s, 'data') and numpy.shares_memory(arr, s.data)] if arr.size else ['-']
                    out.append(('view', g.id, type(p).__name__, nm, tuple(arr.shape), str(arr.dtype), sorted(owners)))
            if p.index is not None:
                out.append(('prim', g.id, type(p).__name__, tuple(numpy.asarray(p.index).shape), str(numpy.asarray(p.index).dtype)))
            if hasattr(p, 'vcounts'):
                out.append(('vcounts', tuple(numpy.asarray(p.vcounts).tolist())))
    return out


def canon(x, depth=0):
    """comparable rendering of a query result"""
    if isinstance(x, numpy.ndarray):
        return ('nd', x.shape, numpy.where(numpy.isnan(x), -123456.0, x).tolist() if x.dtype.kind == 'f' else x.tolist())
    if isinstance(x, (list, tuple)):
        return [canon(y, depth + 1) for y in x]
    if isinstance(x, float) and x != x:
        return -123456.0
    if isinstance(x, (int, float, str, type(None), bool)):
        return x
    if isinstance(x, (numpy.floating, numpy.integer)):
        return x.item()
    d = getattr(x, '__dict__', None)
    if d is not None and depth < 3:
        return (type(x).__name__, sorted((k, canon(v, depth + 1)) for k, v in d.items()
                                         if not k.startswith('_') and k not in ('original', 'xmlnode', 'collada', 'material', 'skin')))
    return type(x).__name__


QUERIES = ['objects_geometry', 'objects_light', 'objects_camera', 'shapes', 'triangleset', 'index0', 'str', 'len', 'inputlist', 'iterate',
           'bound_triangleset', 'imagedata', 'inputlist_use']


class Inconsistent(Exception):
    pass


def do_query(doc, q, r):
    """returns a comparable result"""
    if q.startswith('objects_'):
        kind = q.split('_')[1]
        def show(o):
            if kind == 'geometry':
                return (o.original.id, canon(o.matrix), [canon(p.vertex) for p in o.primitives()])
            return (o.original.id, canon(getattr(o, 'position', None)), canon(getattr(o, 'direction', None)))
        if r.random() < 0.3:
            # a traversal that is started and dropped part-way (a `break`, an exception in the caller's loop) is a read-only operation, too
            for s in doc.scenes:
                it = iter(s.objects(kind))
                for _ in range(r.randint(1, 2)):
                    next(it, None)
                del it
        out = []
        for s in doc.scenes:
            for o in s.objects(kind):
                out.append(show(o))
        # a result is the caller's once it was handed out: looked at after the traversal went on (and finished) it is what it was
        kept = [show(o) for s in doc.scenes for o in list(s.objects(kind))]
        if kept != out:
            k = next((i for i, (a, b) in enumerate(zip(out, kept)) if a != b), min(len(out), len(kept)))
            raise Inconsistent('objects(%r): result %d of %d (%s) looked at when it is handed out is not what it is once the traversal has finished'
                               % (kind, k, len(out), out[k][0] if k < len(out) else '-'))
        return out
    prims = [(g, p) for g in doc.geometries for p in g.primitives]
    if q == 'shapes':
        out = []
        for s in doc.scenes:
            for o in s.objects('geometry'):
                for p in o.primitives():
                    if len(p):
                        out.append(canon(list(p.shapes())[:3]))
        return out
    if q == 'triangleset':
        return [(len(p.triangleset()), canon(p.triangleset().vertex_index)) for g, p in prims if hasattr(p, 'triangleset') and len(p)]
    if q == 'bound_triangleset':
        out = []
        for s in doc.scenes:
            for o in s.objects('geometry'):
                for p in o.primitives():
                    if hasattr(p, 'triangleset') and len(p):
                        ts = p.triangleset()
                        # the triangulation of a BOUND primitive is bound the same way: same transformed vertex (and normal) data
                        if not numpy.array_equal(numpy.asarray(ts.vertex), numpy.asarray(p.vertex), equal_nan=True) or \
                                (p.normal is not None and ts.normal is not None and
                                 not numpy.array_equal(numpy.asarray(ts.normal), numpy.asarray(p.normal), equal_nan=True)):
                            raise Inconsistent('triangleset() of a bound %s of geometry %s does not carry the vertex/normal data of that bound primitive'
                                               % (type(p).__name__, o.original.id))
                        out.append((len(ts), canon(ts.vertex)))
        return out
    if q == 'index0':
        return [canon(p[0]) for g, p in prims if len(p)]
    if q == 'iterate':
        return [len(list(p)) for g, p in prims]
    if q == 'str':
        return [str(doc), repr(doc)] + [str(g) for g in doc.geometries] + [str(p) for g, p in prims] + [str(n) for n in doc.nodes] + \
               [str(x) for lib in ('lights', 'cameras', 'effects', 'materials', 'images', 'scenes') for x in getattr(doc, lib)]
    if q == 'len':
        return [len(p) for g, p in prims] + [len(doc.geometries), len(doc.nodes)]
    if q == 'inputlist':
        # in the order the list is given: the i-th TEXCOORD input is what texcoordset[i] / texcoord_indexset[i] belong to
        return [[tuple(x) for x in p.getInputList().getList()] for g, p in prims]
    if q == 'inputlist_use':
        # the documented way to derive a new primitive: take the input list and add to it; the list is the caller's
        out = []
        for g, p in prims:
            il = p.getInputList()
            out.append(sorted(il.getList(), key=str))
            il.addInput(r.randint(0, 9), r.choice(['TEXCOORD', 'COLOR', 'NORMAL']), '#made-up-%d' % r.randint(0, 99), str(r.randint(0, 9)))
        return out
    if q == 'imagedata':
        out = []
        for i in doc.images:
            try:
                out.append(canon(i.data))
            except Exception as e:
                out.append(type(e).__name__)
        return out
    raise ValueError(q)


def ordered_inputs(doc):
    return [[tuple(x) for x in p.getInputList().getList()] for g in doc.geometries for p in g.primitives]


def make_pair(kind, seed):
    """document and identical twin, with an aux loader so that image data can be asked for"""
    docs = []
    for _ in range(2):
        d, gen = c02.base_doc(kind, seed, dict(anyaxis=True, rig=True, tangents=True, f64=True))     # rotation axes need not be unit vectors; lights and cameras under a scaled top-level node
        d.getFileData = lambda fname: b'bytes of ' + fname.encode()
        docs.append(d)
    # a document without <created>/<modified> gets the time of loading: give the twins the same instant
    docs[1].assetInfo.created = docs[0].assetInfo.created
    docs[1].assetInfo.modified = docs[0].assetInfo.modified
    return docs


def check_history(kind, seed, nq):
    r = random.Random('c17/%s' % seed)
    try:
        doc, twin = make_pair(kind, seed)
    except Exception as e:
        core.note_skip('c17:make_pair', e)
        return None
    before = snap.snapshot(doc)
    mbefore = meta(doc)
    inputs0 = ordered_inputs(doc)
    first = {}
    hist = []
    for i in range(nq):
        q = r.choice(QUERIES + ['save'])
        hist.append(q)
        try:
            if q == 'save':
                doc.save()
                continue
            res = do_query(doc, q, r)
        except Inconsistent as e:
            return ('inconsistent:' + q, '%s (history %s)' % (e, hist))
        except Exception as e:
            return ('query-raised:%s:%s' % (q, type(e).__name__), 'read-only operation %s raised %s: %s (history %s)' % (q, type(e).__name__, str(e)[:120], hist))
        if q in first and first[q] != res:
            return ('not-repeatable:' + q, 'repeating %s gives a different result after %s' % (q, hist))
        first.setdefault(q, res)
        # the input lists of the primitives, in their order (texcoordset[i] belongs to the i-th TEXCOORD input), after every query
        if q != 'inputlist_use':
            now = ordered_inputs(doc)
            if now != inputs0:
                k = next(i for i, (a, b) in enumerate(zip(inputs0, now)) if a != b)
                return ('inputs-reordered:' + q, 'the read-only operation %s changed the input list of primitive %d: %s -> %s (history %s)' % (q, k, inputs0[k], now[k], hist))
    a = copy.deepcopy(before)
    b = snap.snapshot(doc)
    # saving recomputes the node matrices from the transforms: equal up to float32 rounding (snap.diff compares `.matrix[` entries
    # with a relative tolerance of 2e-5), never different in value
    df = snap.diff(a, b)
    if df:
        return ('model-changed', 'read-only operations %s changed the model: %s' % (hist, '; '.join(df[:3])))
    if meta(doc) != mbefore:
        return ('arrays-changed', 'read-only operations %s changed array shapes / dtypes / component tuples: %s -> %s'
                % (hist, [m for m in mbefore if m not in meta(doc)][:2], [m for m in meta(doc) if m not in mbefore][:2]))
    try:
        if c03.wbytes(doc) != c03.wbytes(twin):
            return ('saved-xml-changed', 'after read-only operations %s the document is written differently from an identical twin that was never queried' % hist)
    except Exception as e:
        core.note_skip('c17:write-twin', e)
        return None
    return None


def check_bound_ownership(seed):
    doc = modelgen.build(seed, dict(need_geom=True, geoms=3))
    r = random.Random('c17b/%s' % seed)
    before = [(g.id, [(k, s.data.copy()) for k, s in g.sourceById.items() if hasattr(s, 'data')]) for g in doc.geometries]
    M = numpy.identity(4, dtype=numpy.float32)
    M[:3, 3] = [1, 2, 3]
    M[0, 0] = 2
    n = 0
    for g in doc.geometries:
      for mat in (M, numpy.identity(4, dtype=numpy.float32)):
        bg = g.bind(mat, {})
        for p in bg.primitives():
            for arr in (p.vertex, p.normal):
                if arr is not None and arr.size:
                    n += 1
                    for _, srcs in before:
                        pass
                    for k, s in g.sourceById.items():
                        if hasattr(s, 'data') and numpy.shares_memory(arr, s.data):
                            return ('bound-shares-memory', 'bound %s array of geometry %s shares memory with source %s' % ('vertex' if arr is p.vertex else 'normal', g.id, k)), n
                    arr[...] = 12345.0
    for (gid, srcs), g in zip(before, doc.geometries):
        for k, data in srcs:
            if not numpy.array_equal(g.sourceById[k].data, data, equal_nan=True):
                return ('bound-write-through', 'writing into bound arrays of geometry %s changed its unbound source %s' % (gid, k)), n
    return None, n


def polylist_cases(rng, n):
    """real Polylist objects with given vcounts; returns (lines, actual)"""
    from collada import geometry, source
    import collada
    lines, actual = [], []
    for _ in range(n):
        vc = [rng.choice([3, 4, 5, 3, 6, 2, 1, 0]) for _ in range(rng.randint(1, 6))]
        if sum(vc) == 0:
            continue
        k = rng.randint(1, 4)
        doc = collada.Collada()
        src = source.FloatSource('p', numpy.arange(12, dtype=numpy.float32), ('X', 'Y', 'Z'))
        g = geometry.Geometry(doc, 'g', 'g', [src])
        il = source.InputList()
        il.addInput(0, 'VERTEX', '#p')
        idx = numpy.array([rng.randrange(4) for _ in range(sum(vc))], dtype=numpy.int32)
        pl = g.createPolylist(idx, numpy.array(vc, dtype=numpy.int32), il)
        answers = [len(pl.triangleset()) for _ in range(k)]
        unchanged = list(numpy.asarray(pl.vcounts).tolist()) == vc
        cached = pl.triangleset() is pl.triangleset()
        lines.append('poly %s ; %d' % (' '.join(map(str, vc)), k))
        actual.append('answers=%s data-unchanged=%s cached=%s' % (','.join(map(str, answers)), str(unchanged).lower(), str(cached).lower()))
    return lines, actual


def heap_cases(rng, n):
    from collada import geometry, source
    import collada
    lines, actual = [], []
    for _ in range(n):
        vals = [rng.randint(-5, 5) for _ in range(3 * rng.randint(1, 3))]
        doc = collada.Collada()
        src = source.FloatSource('p', numpy.array(vals, dtype=numpy.float32), ('X', 'Y', 'Z'))
        g = geometry.Geometry(doc, 'g', 'g', [src])
        il = source.InputList()
        il.addInput(0, 'VERTEX', '#p')
        ts = g.createTriangleSet(numpy.array([0, 0, 0], dtype=numpy.int32), il)
        M = -numpy.identity(4, dtype=numpy.float32)
        M[3, 3] = 1
        b = ts.bind(M, {})
        i = rng.randrange(len(vals))
        v = rng.randint(20, 30)
        b.vertex.reshape(-1)[i] = v
        lines.append('heap %s ; %d %d' % (' '.join(map(str, vals)), i, v))
        actual.append('unbound=%s bound=%s' % (','.join(str(int(x)) for x in src.data.reshape(-1).tolist()),
                                               ','.join(str(int(x)) for x in numpy.asarray(b.vertex).reshape(-1).tolist())))
    return lines, actual


def run(ctx):
    ctx.rule = ('query histories of 3-14 read-only operations drawn from %s plus save, on constructed, write-reloaded and shipped documents, each compared with an '
                'identical never-queried twin; bound vertex/normal arrays of every primitive overwritten; non-trivial = at least one geometry; distinct by (base, seed)' % QUERIES)
    reported = set()
    bases = ['constructed', 'reloaded'] + c02.CORPUS
    for i in range(ctx.n(90, 4000)):
        kind = bases[i % len(bases)] if i % 3 == 2 else ('constructed' if i % 3 == 0 else 'reloaded')
        seed = ctx.rng.randrange(10 ** 9)
        nq = ctx.rng.randint(3, 14)
        ctx.case(dict(kind='history', base=kind, seed=seed, nq=nq))
        ctx.count('history:' + ('corpus' if kind not in ('constructed', 'reloaded') else kind))
        res = check_history(kind, seed, nq)
        if res and res[0] not in reported:
            reported.add(res[0])
            ctx.violation('c17:' + res[0], res[1], dict(kind='history', base=kind, seed=seed, nq=nq))
    for i in range(ctx.n(60, 2000)):
        seed = ctx.rng.randrange(10 ** 9)
        res, n = check_bound_ownership(seed)
        ctx.case(dict(kind='bound', seed=seed, arrays=n), nontrivial=n > 0)
        ctx.count('bound-arrays', n)
        if res and res[0] not in reported:
            reported.add(res[0])
            ctx.violation('c17:' + res[0], res[1], dict(kind='bound', seed=seed))
    l1, a1 = polylist_cases(ctx.rng, ctx.n(300, 8000))
    l2, a2 = heap_cases(ctx.rng, ctx.n(200, 5000))
    if ctx.lean_ok:
        for l, a, m in zip(l1 + l2, a1 + a2, ctx.driver('C17', l1 + l2)):
            ctx.count('kernel:' + l.split()[0])
            if a != m and 'corr:' + l.split()[0] not in reported and not any(v['found_input'] for v in ctx.violations):
                reported.add('corr:' + l.split()[0])
                ctx.violation('corr:' + l.split()[0], 'implementation and Pyc.Query disagree on %r: model %r, implementation %r' % (l, m, a), dict(kind='kernel', line=l), found_input=False)


def replay(ctx, rep):
    if rep.get('kind') == 'history':
        res = check_history(rep['base'], rep['seed'], rep['nq'])
    elif rep.get('kind') == 'bound':
        res, _ = check_bound_ownership(rep['seed'])
    else:
        return False
    if res:
        print('  ' + res[1])
    return res is not None
