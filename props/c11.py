"""C11 — Triangulation and strip/fan expansion preserve geometry and winding.

Correspondence: random primitives (run-length vectors with 0/1/2 and longer runs, several <p>,
strides 1-4, inputs at permuted / shared / gapped offsets, pairwise-distinct index labels) go
 * as XML bytes through collada.Collada(io.BytesIO(...)) for <tristrips>, <trifans>, <polylist>, <polygons>,
 * through the helpers collada.triangleset._extendFromStrip / _extendFromFan,
 * through Geometry.createPolylist / createPolygons,
and as one protocol line each through lean/drv/C11.lean (Pyc.IndexOps.loadTris / triangulate /
perPolygon / polygonsVcounts). Compared: accepted or rejected, the triangles (whole index rows, so
every input's index), grouped per <p> / per polygon in order, the vcounts, the per-polygon
triangulation. Order of triangles inside one <p> / polygon is not part of the property and is
only recorded in the histogram.
Direct oracle on the implementation: a naive Python triangulation of the same runs, the count
sum(max(n-2,0)), polygon order, per-polygon == whole-primitive, and that the vertex / normal /
texcoord indices and values found at a corner are those of the row the corner came from.
"""
import io
import random
import re
import warnings

PID = 'C11'
META = dict(
    level_text=('Proof: Pyc/Props/C11.lean proves for every row type, every run length (0, 1, 2 included), every number of <p> '
                'and every stride that _extendFromStrip yields the n-2 strip triangles with every second one swapped (explicit '
                'even-then-odd order and as a permutation of strip order), _extendFromFan the n-2 fan triangles, TriangleSet.load '
                'the per-<p> concatenation with whole index rows carried along, Polylist.triangleset() the fans of the consecutive '
                'polygons in polygon order with sum(max(n_i-2,0)) triangles, Polygon.triangles() the same fans, Polygons the per-<p> '
                'vcounts, and that all of them commute with any relabelling / column selection of the rows. The model is tied to '
                'collada/triangleset.py, polylist.py, polygons.py on every run by a differential check through the real loader, the '
                'helpers and the create* constructors, and the property is evaluated directly on the real objects, which yields replays.'),
    level_note=('Trusted: Lean kernel; axioms propext/Quot.sound/Classical.choice only; the hand-written model Pyc/Model/IndexOps.lean '
                '(numpy slicing, repeat, cumsum, mask selection, fancy indexing, reshape are modelled) and the generator/canonicaliser in '
                'props/c11.py. Primitives whose vcounts do not add up to the number of corners, and <p> streams of <polygons>/<polylist> that '
                'are not a whole number of rows, are outside this property (C09).'),
    technique='Lean 4 proofs over arbitrary lists (induction, index characterisation, List.Perm) + differential correspondence with the real loader and triangulation code',
)
LEAN_MODULES = ['Pyc.Model.IndexOps']
BIG = 16777217          # first integer float32 cannot hold


# ----------------------------------------------------------------------------- cases

def gen_layout(rng):
    k = rng.choice([1, 1, 2, 2, 3, 3, 4])
    inputs = [['VERTEX', rng.randrange(k), None]]
    vnormal = False
    r = rng.random()
    if r < 0.5:
        inputs.append(['NORMAL', rng.randrange(k), None])
    elif r < 0.65:
        vnormal = True
    for s in range(rng.choice([0, 0, 1, 1, 2])):
        inputs.append(['TEXCOORD', rng.randrange(k), s])
    if max(i[1] for i in inputs) != k - 1:
        rng.choice(inputs)[1] = k - 1
    rng.shuffle(inputs)
    return k, inputs, vnormal


def gen_lens(rng, big):
    n = rng.choice([1, 1, 2, 2, 3, 3, 4, 5, 6])
    mode = rng.random()
    if mode < 0.12:
        pool = [0, 1, 2]
    elif mode < 0.3:
        pool = [0, 0, 1, 2, 3, 4, 5]
    else:
        pool = [0, 1, 2, 3, 3, 4, 4, 5, 6, 7, 8, 9, 11, 14 if not big else 40]
    lens = [rng.choice(pool) for _ in range(n)]
    if rng.random() < 0.1:
        lens = [0] * rng.randint(1, 2) + lens
    return lens


def gen_case(rng, big=False):
    kind = rng.choice(['strip', 'fan', 'strip', 'fan', 'polylist', 'polylist', 'polygons'])
    k, inputs, vnormal = gen_layout(rng)
    if kind in ('strip', 'fan'):
        route = 'helper' if rng.random() < 0.25 else 'xml'
    else:
        route = 'create' if rng.random() < 0.3 else 'xml'
    case = dict(kind=kind, route=route, k=k, inputs=inputs, vnormal=vnormal and route == 'xml',
                lens=gen_lens(rng, big), perm=rng.randrange(1 << 30) if rng.random() < 0.5 else None,
                ragged=None, nop=False, ws=rng.randrange(4))
    if kind in ('polylist', 'polygons') and rng.random() < 0.03:
        case['lens'] = []           # a primitive without any polygon
    if kind in ('strip', 'fan') and route == 'xml':
        r = rng.random()
        if r < 0.06 and k > 1:       # malformed stream: a <p> that is not a whole number of rows
            case['ragged'] = [rng.randrange(len(case['lens'])), rng.randint(1, k - 1)]
        elif r < 0.08:
            case['nop'] = True
            case['lens'] = []
    if kind in ('strip', 'fan') and case['lens'] and rng.random() < 0.3:
        # stitched strips / repeated fan vertices: some rows repeat their predecessor (the expansion only looks at positions, never at values)
        st = []
        for i, n in enumerate(case['lens']):
            for j in range(1, n):
                if rng.random() < 0.25:
                    st.append([i, j])
        case['stitch'] = st
    if kind in ('polylist', 'polygons') and case['lens'] and rng.random() < 0.3:
        # polygons "closed" by repeating their first corner as the last one (some exporters do): still n corners, n-2 triangles
        case['closed'] = [i for i, n in enumerate(case['lens']) if n >= 4 and rng.random() < 0.5]
    return case


def materialise(case):
    """rows of every run with pairwise-distinct labels; label = position in the stream, optionally permuted"""
    k = case['k']
    total = sum(case['lens'])
    extra = case['ragged'][1] if case['ragged'] else 0
    labels = list(range(total * k + extra))
    if case.get('perm') is not None:
        random.Random(case['perm']).shuffle(labels)
    base = case.get('base', 0)
    labels = [x + base for x in labels]
    ps, c = [], 0
    for n in case['lens']:
        ps.append([labels[(c + i) * k:(c + i + 1) * k] for i in range(n)])
        c += n
    for i, j in case.get('stitch') or []:
        if i < len(ps) and j < len(ps[i]):
            ps[i][j] = list(ps[i][j - 1])
    for i in case.get('closed') or []:
        if i < len(ps) and len(ps[i]) >= 4:
            ps[i][-1] = list(ps[i][0])
    tail = labels[total * k:]
    nsrc = base + total * k + extra + 1
    return ps, tail, nsrc


def flat_streams(case):
    ps, tail, _ = materialise(case)
    out = []
    for i, p in enumerate(ps):
        f = [x for row in p for x in row]
        if case['ragged'] and case['ragged'][0] == i:
            f = f + tail
        out.append(f)
    return out


def model_line(case):
    k = case['k']
    streams = flat_streams(case)
    txt = ' ; '.join(' '.join(map(str, f)) for f in streams)
    if case['kind'] in ('strip', 'fan'):
        if case['nop']:
            return '%s %d' % (case['kind'], k)
        return '%s %d | %s' % (case['kind'], k, txt)
    if case['kind'] == 'polylist':
        return 'poly %d | %s | %s' % (k, ' '.join(map(str, case['lens'])), ' '.join(str(x) for f in streams for x in f))
    return 'pgons %d | %s' % (k, txt) if streams else 'pgons %d' % k


def offsets(case):
    """(vertex offset, normal offset or None, [texcoord offsets in document order])"""
    ov = [i[1] for i in case['inputs'] if i[0] == 'VERTEX'][0]
    on = [i[1] for i in case['inputs'] if i[0] == 'NORMAL']
    on = on[0] if on else (ov if case['vnormal'] else None)
    ot = [i[1] for i in case['inputs'] if i[0] == 'TEXCOORD']
    return ov, on, ot


def project(case, row):
    ov, on, ot = offsets(case)
    return tuple([row[ov]] + ([row[on]] if on is not None else []) + [row[o] for o in ot])


# ----------------------------------------------------------------------------- sources / documents

def src_value(which, i):
    if which == 'pos':
        return [3 * i, 3 * i + 1, 3 * i + 2]
    if which == 'nrm':
        return [-3 * i - 1, -3 * i - 2, -3 * i - 3]
    s = int(which[2:])
    return [2 * i + 100000 * (s + 1), 2 * i + 1 + 100000 * (s + 1)]


def src_xml(sid, n, comps):
    vals = ' '.join(str(v) for i in range(n) for v in src_value(sid, i))
    params = ''.join('<param name="%s" type="float"/>' % c for c in comps)
    return ('<source id="%s"><float_array id="%s-a" count="%d">%s</float_array><technique_common>'
            '<accessor source="#%s-a" count="%d" stride="%d">%s</accessor></technique_common></source>'
            % (sid, sid, n * len(comps), vals, sid, n, len(comps), params))


WS = [(' ', '', ''), ('\n', '\n  ', '\n'), ('  ', ' ', ' '), ('\t', '', ' ')]


def p_text(stream, ws):
    sep, lead, trail = WS[ws]
    if not stream:
        return '<p/>' if ws % 2 == 0 else '<p>%s</p>' % (lead + trail or ' ')
    return '<p>%s%s%s</p>' % (lead, sep.join(map(str, stream)), trail)


def build_xml(case):
    ps, tail, nsrc = materialise(case)
    streams = flat_streams(case)
    tag = {'strip': 'tristrips', 'fan': 'trifans', 'polylist': 'polylist', 'polygons': 'polygons'}[case['kind']]
    body = ''
    for sem, off, st in case['inputs']:
        srcid = {'VERTEX': 'verts', 'NORMAL': 'nrm'}.get(sem) or 'uv%d' % st
        body += '<input semantic="%s" source="#%s" offset="%d"%s/>' % (sem, srcid, off, '' if st is None else ' set="%d"' % st)
    if case['kind'] == 'polylist':
        body += '<vcount>%s</vcount>' % WS[case['ws']][0].join(map(str, case['lens']))
        body += p_text([x for f in streams for x in f], case['ws'])
    elif not case['nop']:
        body += ''.join(p_text(f, case['ws']) for f in streams)
    vin = '<input semantic="POSITION" source="#pos"/>' + ('<input semantic="NORMAL" source="#nrm"/>' if case['vnormal'] else '')
    return ('<?xml version="1.0" encoding="utf-8"?>\n'
            '<COLLADA xmlns="http://www.collada.org/2005/11/COLLADASchema" version="1.4.1">'
            '<asset><created>2020-01-01T00:00:00</created><modified>2020-01-01T00:00:00</modified></asset>'
            '<library_geometries><geometry id="g"><mesh>%s%s%s%s<vertices id="verts">%s</vertices>'
            '<%s count="%d" material="m">%s</%s></mesh></geometry></library_geometries></COLLADA>'
            % (src_xml('pos', nsrc, 'XYZ'), src_xml('nrm', nsrc, 'XYZ'), src_xml('uv0', nsrc, 'ST'), src_xml('uv1', nsrc, 'ST'),
               vin, tag, len(streams), body, tag)).encode()


# ----------------------------------------------------------------------------- the real code

def tolist(a):
    return [] if a is None else a.tolist()


def rows3(index):
    """(T,3,k) index array -> list of triangles, a triangle = 3 row tuples"""
    return [tuple(tuple(int(x) for x in corner) for corner in tri) for tri in tolist(index)]


def as_ints(a):
    """index values as Python ints; a non-integral value is reported as such"""
    out = []
    for x in list(a):
        xi = int(x)
        out.append(xi if xi == x else float(x))
    return out


def check_values(case, what, idx, vals, which):
    """values found at the corners are those the source holds at the indices found at the corners"""
    idx = as_ints(idx)
    want = [[float(v) for v in src_value(which, i)] if isinstance(i, int) else None for i in idx]
    got = [[float(v) for v in row] for row in vals.tolist()]
    if want != got:
        return '%s: values %s are not source %s at indices %s (%s)' % (what, got, which, idx, want)
    return None


def snap_triangleset(case, ts, out):
    """whole-primitive observables of a TriangleSet; attachment problems are appended to out['attach']"""
    import numpy
    ov, on, ot = offsets(case)
    tris = rows3(ts.index)
    out['tris'] = tris
    if len(tris) != len(ts):
        out['attach'].append('len() is %d but index holds %d triangles' % (len(ts), len(tris)))
    if not tris:
        return
    idx = numpy.asarray(ts.index)
    cols = [('vertex_index', ts.vertex_index, ov)]
    if on is not None:
        cols.append(('normal_index', ts.normal_index, on))
    tis = ts.texcoord_indexset
    if len(tis) != len(ot):
        out['attach'].append('%d texcoord index sets for %d TEXCOORD inputs' % (len(tis), len(ot)))
    for j, o in enumerate(ot[:len(tis)]):
        cols.append(('texcoord_indexset[%d]' % j, tis[j], o))
    for name, arr, o in cols:
        if arr is None or tolist(arr) != idx[:, :, o].tolist():
            out['attach'].append('%s is %s, index column %d is %s' % (name, tolist(arr), o, idx[:, :, o].tolist()))
    for t in range(len(tris)):
        tri = ts[t]
        rowsproj = tuple(project(case, r) for r in tris[t])
        got = [as_ints(tri.indices)] + ([as_ints(tri.normal_indices)] if on is not None else []) + [as_ints(x) for x in tri.texcoord_indices]
        got = tuple(zip(*got)) if got else ()
        if got != rowsproj:
            out['attach'].append('item %d carries indices %s, its rows are %s' % (t, got, rowsproj))
            continue
        bad = check_values(case, 'item %d vertices' % t, tri.indices, tri.vertices, 'pos')
        if not bad and on is not None:
            bad = check_values(case, 'item %d normals' % t, tri.normal_indices, tri.normals, 'nrm')
        for j in range(len(ot)):
            st = [i[2] for i in case['inputs'] if i[0] == 'TEXCOORD'][j]
            bad = bad or check_values(case, 'item %d texcoords[%d]' % (t, j), tri.texcoord_indices[j], tri.texcoords[j], 'uv%d' % st)
        if bad:
            out['attach'].append(bad)


def snap_polygons(case, pl, out):
    ov, on, ot = offsets(case)
    per = []
    for i in range(len(pl)):
        out['stage'] = 'getitem'
        poly = pl[i]
        out['stage'] = 'triangles'
        tris = []
        for tri in poly.triangles():
            cols = [tri.indices] + ([tri.normal_indices] if on is not None else []) + list(tri.texcoord_indices)
            kinds = set(getattr(c, 'dtype', None) is not None and c.dtype.kind for c in cols)
            out['kinds'] |= kinds
            cols = [as_ints(c) for c in cols]
            tris.append(tuple(zip(*cols)))
            bad = check_values(case, 'polygon %d triangle vertices' % i, tri.indices, tri.vertices, 'pos')
            if not bad and on is not None:
                bad = check_values(case, 'polygon %d triangle normals' % i, tri.normal_indices, tri.normals, 'nrm')
            for j in range(len(ot)):
                st = [x[2] for x in case['inputs'] if x[0] == 'TEXCOORD'][j]
                bad = bad or check_values(case, 'polygon %d triangle texcoords[%d]' % (i, j), tri.texcoord_indices[j], tri.texcoords[j], 'uv%d' % st)
            if bad:
                out['attach'].append(bad)
        per.append(tris)
    out['per'] = per


def make_created(case):
    """the primitive through Geometry.createPolylist / createPolygons"""
    import numpy
    import collada
    from collada import source
    ps, tail, nsrc = materialise(case)
    mesh = collada.Collada()
    srcs = []
    used = set(['pos'] + [{'VERTEX': 'pos', 'NORMAL': 'nrm'}.get(sem) or 'uv%d' % st for sem, off, st in case['inputs']])
    for sid, comps in (('pos', ('X', 'Y', 'Z')), ('nrm', ('X', 'Y', 'Z')), ('uv0', ('S', 'T')), ('uv1', ('S', 'T'))):
        if sid not in used:
            continue
        if case.get('base'):
            # labels above 2**24 need a source that long: zero pages, values are not compared
            data = numpy.zeros(nsrc * len(comps), dtype=numpy.float32)
            srcs.append(source.FloatSource(sid, data, comps, xmlnode=collada.common.E.source(id=sid)))
        else:
            data = numpy.array([v for i in range(nsrc) for v in src_value(sid, i)], dtype=numpy.float32)
            srcs.append(source.FloatSource(sid, data, comps))
    geom = collada.geometry.Geometry(mesh, 'g', 'g', srcs)
    il = source.InputList()
    for sem, off, st in case['inputs']:
        srcid = {'VERTEX': 'pos', 'NORMAL': 'nrm'}.get(sem) or 'uv%d' % st
        il.addInput(off, sem, '#' + srcid, None if st is None else str(st))
    streams = flat_streams(case)
    if case['kind'] == 'polylist':
        return geom.createPolylist(numpy.array([x for f in streams for x in f], dtype=numpy.int32),
                                   numpy.array(case['lens'], dtype=numpy.int32), il, 'm')
    return geom.createPolygons([numpy.array(f, dtype=numpy.int32) for f in streams], il, 'm')


def run_impl(case):
    """returns dict(status, stage, tris, vc, per, attach, kinds)"""
    import numpy
    import collada
    from collada import triangleset
    out = dict(status='ok', stage='load', tris=None, vc=None, per=None, attach=[], kinds=set())
    try:
        with warnings.catch_warnings():
            warnings.simplefilter('ignore')
            if case['route'] == 'helper':
                k = case['k']
                lst = []
                fn = triangleset._extendFromStrip if case['kind'] == 'strip' else triangleset._extendFromFan
                for f in flat_streams(case):
                    fn(lst, numpy.array(f, dtype=numpy.int32).reshape((-1, k)))
                idx = numpy.concatenate(lst) if lst else numpy.array([], dtype=numpy.int32)
                out['tris'] = rows3(idx.reshape((-1, 3, k)))
                return out
            if case['route'] == 'create':
                prim = make_created(case)
            else:
                doc = collada.Collada(io.BytesIO(build_xml(case)))
                prim = doc.geometries[0].primitives[0]
            want = {'strip': 'TriangleSet', 'fan': 'TriangleSet', 'polylist': 'Polylist', 'polygons': 'Polygons'}[case['kind']]
            if type(prim).__name__ != want:
                out['status'] = 'fail:loaded-as-' + type(prim).__name__
                return out
            if case['kind'] in ('strip', 'fan'):
                out['stage'] = 'observe'
                snap_triangleset(case, prim, out)
                return out
            out['vc'] = [int(x) for x in prim.vcounts]
            if len(prim) != len(out['vc']):
                out['attach'].append('len() is %d for %d vcounts' % (len(prim), len(out['vc'])))
            out['stage'] = 'triangleset'
            ts = prim.triangleset()
            out['stage'] = 'observe'
            snap_triangleset(case, ts, out)
            snap_polygons(case, prim, out)
            out['stage'] = 'done'
    except MemoryError:
        raise
    except Exception as e:
        out['status'] = 'fail:' + type(e).__name__
    return out


# ----------------------------------------------------------------------------- naive triangulation, oracle

def naive_strip(x):
    return [(x[i], x[i + 1], x[i + 2]) if i % 2 == 0 else (x[i + 1], x[i], x[i + 2]) for i in range(len(x) - 2)]


def naive_fan(x):
    return [(x[0], x[i + 1], x[i + 2]) for i in range(len(x) - 2)]


def tuples(p):
    return [tuple(r) for r in p]


def group_runs(tris, rowgroup):
    """maximal runs of triangles that belong to the same <p> / polygon, each run sorted"""
    runs = []
    for t in tris:
        g = rowgroup.get(t[0])
        if runs and runs[-1][0] == g:
            runs[-1][1].append(t)
        else:
            runs.append((g, [t]))
    return [(g, sorted(ts)) for g, ts in runs]


def oracle(case, res):
    """the property evaluated on what the real code returned: None or (category, text)"""
    kind = case['kind']
    ps, tail, nsrc = materialise(case)
    if case['ragged'] or case['nop']:
        return None             # malformed stream: not part of the property (correspondence only)
    if res['status'] != 'ok':
        return ('%s:%s' % (res['stage'], res['status'][5:]),
                '%s with run lengths %s, stride %d fails at %s with %s' % (kind, case['lens'], case['k'], res['stage'], res['status'][5:]))
    naive = naive_strip if kind == 'strip' else naive_fan
    groups = [naive(tuples(p)) for p in ps]
    want_all = [t for g in groups for t in g]
    ntri = sum(max(n - 2, 0) for n in case['lens'])
    assert len(want_all) == ntri
    got = res['tris']
    if len(got) != ntri:
        return ('count', '%s with run lengths %s gives %d triangles, sum(max(n-2,0)) is %d' % (kind, case['lens'], len(got), ntri))
    if sorted(got) != sorted(want_all):
        return ('triangles', '%s with run lengths %s gives triangles %s, expected (in some order) %s' % (kind, case['lens'], got, want_all))
    if kind in ('polylist', 'polygons'):
        if res['vc'] != case['lens']:
            return ('vcounts', '%s built from polygons of %s corners reports vcounts %s' % (kind, case['lens'], res['vc']))
        rowgroup = dict((r, i) for i, p in enumerate(tuples(p) for p in ps) for r in p)
        order = [rowgroup[t[0]] for t in got]
        if order != sorted(order):
            return ('order', '%s triangles are not in polygon order: polygons %s' % (kind, order))
        if res['per'] is None or len(res['per']) != len(ps):
            return ('perpoly', '%s has %d polygons, per-polygon access gives %s' % (kind, len(ps), res['per'] and len(res['per'])))
        for i, g in enumerate(groups):
            wantp = sorted(tuple(project(case, r) for r in t) for t in g)
            if sorted(res['per'][i]) != wantp:
                return ('perpoly', 'polygon %d of %s (%s corners) triangulates alone to %s, inside triangleset() to %s'
                        % (i, kind, case['lens'][i], res['per'][i], wantp))
    if res['attach']:
        return ('attach', '%s with inputs %s: %s' % (kind, case['inputs'], res['attach'][0]))
    return None


def signature(case, bad):
    return '%s:%s:%s' % (case['kind'], 'helper' if case['route'] == 'helper' else 'api', bad[0])


def failing(case):
    return oracle(case, run_impl(case))


def shrink(case, sig):
    def same(c):
        try:
            b = failing(c)
        except Exception:
            return False
        return b is not None and signature(c, b) == sig
    cur = dict(case)
    changed = True
    while changed:
        changed = False
        cands = []
        for i in range(len(cur['lens'])):
            cands.append(dict(cur, lens=cur['lens'][:i] + cur['lens'][i + 1:]))
        for i in range(len(cur['lens'])):
            if cur['lens'][i] > 0:
                cands.append(dict(cur, lens=cur['lens'][:i] + [cur['lens'][i] - 1] + cur['lens'][i + 1:]))
        if cur['k'] != 1 or len(cur['inputs']) != 1 or cur['vnormal']:
            cands.append(dict(cur, k=1, inputs=[['VERTEX', 0, None]], vnormal=False))
        if cur['perm'] is not None:
            cands.append(dict(cur, perm=None))
        if cur['ws']:
            cands.append(dict(cur, ws=0))
        for c in cands:
            if (c['lens'] or case['kind'] in ('polylist', 'polygons')) and same(c):
                cur = c
                changed = True
                break
    return cur


# ----------------------------------------------------------------------------- model answers

def parse_tris(txt):
    return [tuple(tuple(int(x) for x in row.split(',')) for row in t.split('/')) for t in txt.split()]


def parse_model(ans):
    if not ans.startswith('ok'):
        return dict(status=ans, tris=None, vc=None, per=None)
    m = re.match(r'^ok vc=(.*?) tris=(.*?) per=(.*)$', ans)
    if m:
        return dict(status='ok', vc=[int(x) for x in m.group(1).split(',') if x], tris=parse_tris(m.group(2)),
                    per=[parse_tris(g) for g in m.group(3).split(';')] if (m.group(1) or m.group(3)) else [])
    return dict(status='ok', tris=parse_tris(ans[2:]), vc=None, per=None)


def compare(case, model, res):
    """property-relevant observables of model and implementation; None or text"""
    ps, tail, nsrc = materialise(case)
    if (model['status'] == 'ok') != (res['status'] == 'ok'):
        return 'model says %s, implementation %s (stage %s)' % (model['status'], res['status'], res['stage'])
    if model['status'] != 'ok':
        if case['kind'] in ('strip', 'fan') and model['status'] != res['status']:
            return 'model says %s, implementation %s' % (model['status'], res['status'])
        return None
    rowgroup = dict((r, i) for i, p in enumerate(tuples(p) for p in ps) for r in p)
    if group_runs(model['tris'], rowgroup) != group_runs(res['tris'], rowgroup):
        return 'triangles differ: model %s, implementation %s' % (model['tris'], res['tris'])
    if case['kind'] in ('polylist', 'polygons'):
        if model['vc'] != res['vc']:
            return 'vcounts differ: model %s, implementation %s' % (model['vc'], res['vc'])
        mper = [sorted(tuple(project(case, r) for r in t) for t in g) for g in model['per']]
        if mper != [sorted(g) for g in res['per']]:
            return 'per-polygon triangles differ: model %s, implementation %s' % (mper, res['per'])
    return None


# ----------------------------------------------------------------------------- anchored-code coverage of the generator

ANCHOR_FUNCS = [('collada/triangleset.py', '_extendFromStrip'), ('collada/triangleset.py', '_extendFromFan'),
                ('collada/triangleset.py', 'TriangleSet.load'), ('collada/polylist.py', 'Polylist.triangleset'),
                ('collada/polylist.py', 'Polygon.triangles'), ('collada/polylist.py', 'Polylist.__getitem__'),
                ('collada/polygons.py', 'Polygons.__init__'), ('collada/polygons.py', 'Polygons.load')]


def anchor_coverage(cases):
    """line coverage of the anchored functions while a sample of the cases runs on the real code"""
    try:
        import ast
        import os
        import coverage
        from vlib import core
        files = sorted(set(os.path.join(core.REPO, f) for f, _ in ANCHOR_FUNCS))
        cov = coverage.Coverage(data_file=None, include=files)
        cov.start()
        try:
            for c in cases:
                run_impl(c)
        finally:
            cov.stop()
        out = {}
        for f, qual in ANCHOR_FUNCS:
            path = os.path.join(core.REPO, f)
            tree = ast.parse(open(path).read())
            node = None
            parts = qual.split('.')
            for n in ast.walk(tree):
                if isinstance(n, ast.ClassDef) and len(parts) == 2 and n.name == parts[0]:
                    for m in n.body:
                        if isinstance(m, ast.FunctionDef) and m.name == parts[1]:
                            node = m
                elif isinstance(n, ast.FunctionDef) and len(parts) == 1 and n.name == parts[0] and n.col_offset == 0:
                    node = n
            if node is None:
                out[qual] = 'not found'
                continue
            _, stmts, _, missing, _ = cov.analysis2(path)
            body = [l for l in stmts if node.lineno < l <= node.end_lineno]
            miss = [l for l in body if l in missing]
            out[qual] = '%d/%d lines' % (len(body) - len(miss), len(body)) + (' (not reached: %s)' % miss if miss else '')
        return out
    except Exception as e:        # measurement only
        return {'error': '%s: %s' % (type(e).__name__, e)}


# ----------------------------------------------------------------------------- run / replay

DIRECTED = [
    dict(kind='fan', route='xml', k=1, inputs=[['VERTEX', 0, None]], vnormal=False, lens=[1], perm=None, ragged=None, nop=False, ws=0),
    dict(kind='fan', route='helper', k=2, inputs=[['VERTEX', 0, None], ['NORMAL', 1, None]], vnormal=False, lens=[4, 1, 0, 2, 3], perm=None, ragged=None, nop=False, ws=0),
    dict(kind='strip', route='xml', k=1, inputs=[['VERTEX', 0, None]], vnormal=False, lens=[0, 1, 2], perm=None, ragged=None, nop=False, ws=1),
    dict(kind='polylist', route='xml', k=1, inputs=[['VERTEX', 0, None]], vnormal=False, lens=[0], perm=None, ragged=None, nop=False, ws=0),
    dict(kind='polylist', route='create', k=1, inputs=[['VERTEX', 0, None]], vnormal=False, lens=[0, 1], perm=None, ragged=None, nop=False, ws=0),
    dict(kind='polylist', route='xml', k=2, inputs=[['NORMAL', 1, None], ['VERTEX', 0, None]], vnormal=False, lens=[0, 0, 5, 1, 0, 2, 4], perm=None, ragged=None, nop=False, ws=2),
    dict(kind='polygons', route='xml', k=1, inputs=[['VERTEX', 0, None]], vnormal=False, lens=[4, 0, 3], perm=None, ragged=None, nop=False, ws=0),
    dict(kind='polygons', route='xml', k=2, inputs=[['VERTEX', 1, None], ['TEXCOORD', 0, 0]], vnormal=False, lens=[0, 0], perm=None, ragged=None, nop=False, ws=1),
    dict(kind='polygons', route='create', k=3, inputs=[['VERTEX', 0, None], ['TEXCOORD', 2, 1]], vnormal=False, lens=[3, 0, 5], perm=None, ragged=None, nop=False, ws=0),
    # index labels float32 cannot represent: per-polygon and whole-primitive triangulation must still name the same corners
    dict(kind='polylist', route='create', k=1, inputs=[['VERTEX', 0, None]], vnormal=False, lens=[4, 3], perm=None, ragged=None, nop=False, ws=0, base=BIG),
    dict(kind='polygons', route='create', k=2, inputs=[['VERTEX', 0, None], ['NORMAL', 1, None]], vnormal=False, lens=[5], perm=None, ragged=None, nop=False, ws=0, base=BIG),
]


def oracle_big(case, res):
    """labels above 2**24: source values are zeros and are not compared, indices are"""
    res = dict(res, attach=[a for a in res['attach'] if 'values' not in a])
    return oracle(case, res)


def judge(case, res):
    return oracle_big(case, res) if case.get('base') else oracle(case, res)


def run(ctx):
    ctx.rule = ('random primitives: kind in tristrips/trifans/polylist/polygons; 1-8 runs (<p> or polygons) of 0-14 corners with 0/1/2 '
                'over-represented and leading empty runs; stride 1-4 with VERTEX/NORMAL/TEXCOORD(0-2 sets) at permuted, shared or '
                'gapped offsets, NORMAL optionally inside <vertices>; pairwise-distinct index labels, identity or shuffled; routes: XML '
                'through collada.Collada, the _extendFrom* helpers, Geometry.createPolylist/createPolygons; whitespace variants; plus a '
                'malformed stream (ragged <p>, no <p>) and fixed edge cases (single-vertex fan, all-empty polylist, empty <p> in '
                'polygons, labels above 2**24). Non-trivial = loads and yields at least one triangle from a primitive that also '
                'contains a run shorter than 3 or more than one run; distinct = distinct generated case')
    n = ctx.n(5000, 150000)
    cases = [dict(c) for c in DIRECTED] + [gen_case(ctx.rng, big=ctx.thorough and i % 50 == 0) for i in range(n)]
    junk = ['', 'strip', 'strip x | 1 2 3', 'fan 1 | 1 a 3', 'poly 1 | 3', 'weld 1 | 1 2 3', 'poly 1 | 3 | 0 1 2 | 4', 'pgons | 1', 'pgons']
    lines = [model_line(c) for c in cases] + junk
    model = ctx.driver('C11', lines) if ctx.lean_ok else None
    if model is not None:
        badjunk = [(l, a) for l, a in zip(junk, model[len(cases):]) if a != 'bad-op']
        if badjunk:
            ctx.violation('corr:driver:bad-op', 'driver accepted unparsable request lines: %s' % badjunk,
                          dict(kind='correspondence', lines=badjunk), found_input=False)
    reported = set()
    for n_, case in enumerate(cases):
        try:
            res = run_impl(case)
        except MemoryError:
            ctx.count('skipped:memory')
            continue
        bad = judge(case, res)
        ntri = len(res['tris'] or [])
        short = any(x < 3 for x in case['lens'])
        ctx.case(dict(line=model_line(case), route=case['route'], inputs=case['inputs'], vnormal=case['vnormal']),
                 nontrivial=res['status'] == 'ok' and ntri > 0 and (short or len(case['lens']) > 1))
        ctx.count('kind:%s/%s' % (case['kind'], case['route']))
        ctx.count('stride:%d' % case['k'])
        ctx.count('outcome:' + res['status'])
        ctx.count('runs:%s' % min(len(case['lens']), 6))
        for x in set(min(x, 4) for x in case['lens']):
            ctx.count('has-run-of:%s' % ('%d' % x if x < 4 else '4+'))
        if case['ragged'] or case['nop']:
            ctx.count('malformed:' + ('ragged-p' if case['ragged'] else 'no-p'))
        if bad:
            sig = signature(case, bad)
            if sig not in reported:
                reported.add(sig)
                small = shrink(case, sig) if not case.get('base') else case
                b2 = judge(small, run_impl(small)) or bad
                ctx.violation(sig, b2[1], dict(kind='oracle', case=small, line=model_line(small)))
            continue
        if model is None:
            continue
        m = parse_model(model[n_])
        diff = compare(case, m, res)
        if diff:
            sig = 'corr:%s:%s' % (case['kind'], 'helper' if case['route'] == 'helper' else 'api')
            if sig not in reported:
                reported.add(sig)
                ctx.violation(sig, 'correspondence Pyc.IndexOps <-> collada broke on %r: %s; the naive-triangulation oracle found no '
                              'failing input on this case (theorems of Pyc/Props/C11.lean no longer describe the code)'
                              % (model_line(case), diff), dict(kind='correspondence', case=case, line=model_line(case), model=model[n_]),
                              found_input=False)
        elif m['status'] == 'ok':
            ctx.count('order-inside-run:' + ('same-as-model' if m['tris'] == res['tris'] else 'differs-from-model'))
    sample = [c for c in cases if not c.get('base')][:400]
    ctx.notes['anchor_coverage'] = anchor_coverage(sample)
    ctx.assumptions.append('numpy slicing, repeat, cumsum, mask selection, fancy indexing and reshape are modelled (Pyc/Model/IndexOps.lean); '
                           'primitives with inconsistent vcounts are outside C11')


def replay(ctx, rep):
    case = rep['case']
    res = run_impl(case)
    bad = judge(case, res)
    if bad:
        print('  ' + bad[1][:800])
    return bad is not None
