"""C16 — the container does not matter: path, file object, zip member.

Correspondence: generated archive layouts (documents at several depths, several .dae members,
__MACOSX decoys in every position, upper-case extensions, archives without a document) are loaded
with the real `collada.Collada` from a filesystem path (str, bytes, relative), from file objects and
from zip archives (BytesIO, path, file object) under every combination of `aux_file_loader` /
`zip_filename` / `ignore`; the same scenario is sent to Pyc.Container (lean/drv/C16.lean).
Compared: outcome class, which member was selected, which document was loaded (canonical public
snapshot against the snapshot of the plain bytes), the result of the first `CImage.data` access
per image path.  Direct oracle on the implementation: a naive reading of the property statement
(first real .dae member / member by name / no document -> DaeIncompleteError; image path resolved
relative to the document inside its container, or through the loader; not found ->
DaeBrokenRefError) evaluated for every run without the Lean model.
"""
import hashlib
import io
import json
import os
import posixpath
import shutil
import tempfile
import zipfile

PID = 'C16'
META = dict(
    level_text=('Proof: Pyc/Props/C16.lean proves for every list of member names that the selection loop returns the first '
                '.dae/.DAE member that is not a MACOSX decoy wherever decoys stand, a decoy only if every candidate is one, '
                'the named member exactly when zip_filename names a member, and DaeIncompleteError exactly when there is '
                'nothing to select; that normpath(join(dirname(member), rel)) equals the plain stack resolution of rel '
                '(./x, sub/x, ../x, any mix) at every depth; the resolver dispatch table (loader overrides, zip never '
                'reads the disk, no resolver or None from the loader is a broken reference); and that loading is '
                'parsing of the extracted bytes. The model is tied to collada/__init__.py and collada/material.py on '
                'every run by a differential check over generated archive layouts and every source kind / argument '
                'combination, and the property itself is evaluated on the real loader, which is what yields replays.'),
    level_note=('Trusted: Lean kernel; axioms propext/Quot.sound/Classical.choice only; the hand-written model '
                'Pyc/Model/Container.lean and the layout generator/canonicaliser in props/c16.py; zipfile, open(), '
                'os.path.exists/isfile and CPython str methods are modelled (posixpath.normpath/dirname/join are re-implemented '
                'in Lean and compared with CPython on random strings in every run). os.path is posixpath here (Linux). '
                'Member names are ASCII. Which of several genuine documents is picked automatically is fixed by the model '
                '(the first); the property oracle only demands that it is one of them.'),
    technique='Lean 4 proofs over all name lists / path component lists + differential check of member selection, resolver dispatch and path resolution against collada.Collada on generated containers',
)
LEAN_MODULES = ['Pyc.Model.Container']

INCOMPLETE = 'DaeIncompleteError'

# ----------------------------------------------------------------------------- encoding


def enc(name):
    if name == '':
        return '~'
    out = []
    for ch in name:
        if ch.isascii() and (ch.isalnum() or ch in '._/'):
            out.append(ch)
        else:
            out.append('%%%02X' % ord(ch))
    return ''.join(out)


def dec(tok):
    if tok == '~':
        return ''
    out = []
    i = 0
    while i < len(tok):
        if tok[i] == '%':
            out.append(chr(int(tok[i + 1:i + 3], 16)))
            i += 3
        else:
            out.append(tok[i])
            i += 1
    return ''.join(out)


def pairs(items):
    return ','.join('%s:%d' % (enc(n), b) for n, b in items)


# ----------------------------------------------------------------------------- documents

def make_doc(rng, marker, img_paths, broken=False):
    """a small COLLADA document written by hand (independent of pycollada's writer)"""
    n = rng.randint(3, 5)
    pos = [rng.randint(-4, 4) for _ in range(3 * n)]
    tris = [rng.randrange(n) for _ in range(3 * rng.randint(1, 3))]
    tr = [rng.randint(-3, 3) for _ in range(3)]
    sc = [rng.choice([1, 2, 3]) for _ in range(3)]
    up = rng.choice(['X_UP', 'Y_UP', 'Z_UP'])
    imgs = ''.join('<image id="img%d" name="img%d"><init_from>%s</init_from></image>' % (i, i, _xml(p))
                   for i, p in enumerate(img_paths))
    if img_paths and rng.random() < 0.7:
        k = rng.randrange(len(img_paths))
        diffuse = '<texture texture="samp" texcoord="UV"/>'
        params = ('<newparam sid="surf"><surface type="2D"><init_from>img%d</init_from></surface></newparam>'
                  '<newparam sid="samp"><sampler2D><source>surf</source></sampler2D></newparam>' % k)
    else:
        diffuse = '<color>%d 0.5 0.25 1</color>' % rng.randint(0, 1)
        params = ''
    fxref = 'nofx' if broken else 'fx'
    return ('<?xml version="1.0" encoding="utf-8"?>\n'
            '<COLLADA xmlns="http://www.collada.org/2005/11/COLLADASchema" version="1.4.1">'
            '<asset><created>2020-01-01T00:00:00</created><modified>2020-01-01T00:00:00</modified>'
            '<unit name="meter" meter="1"/><up_axis>%(up)s</up_axis></asset>'
            '<library_images>%(imgs)s</library_images>'
            '<library_effects><effect id="fx"><profile_COMMON>%(params)s<technique sid="common"><phong>'
            '<diffuse>%(diffuse)s</diffuse></phong></technique></profile_COMMON></effect></library_effects>'
            '<library_materials><material id="mat" name="mat"><instance_effect url="#%(fxref)s"/></material></library_materials>'
            '<library_geometries><geometry id="%(marker)s" name="%(marker)s"><mesh>'
            '<source id="pos"><float_array id="pos-a" count="%(np)d">%(pos)s</float_array><technique_common>'
            '<accessor source="#pos-a" count="%(n)d" stride="3"><param name="X" type="float"/><param name="Y" type="float"/>'
            '<param name="Z" type="float"/></accessor></technique_common></source>'
            '<vertices id="verts"><input semantic="POSITION" source="#pos"/></vertices>'
            '<triangles count="%(nt)d" material="m"><input semantic="VERTEX" source="#verts" offset="0"/><p>%(tris)s</p></triangles>'
            '</mesh></geometry></library_geometries>'
            '<library_visual_scenes><visual_scene id="vs"><node id="n0" name="n0"><translate>%(tr)s</translate>'
            '<node id="n1"><scale>%(sc)s</scale><instance_geometry url="#%(marker)s"><bind_material><technique_common>'
            '<instance_material symbol="m" target="#mat"/></technique_common></bind_material></instance_geometry></node>'
            '</node></visual_scene></library_visual_scenes>'
            '<scene><instance_visual_scene url="#vs"/></scene></COLLADA>\n') % dict(
                up=up, imgs=imgs, params=params, diffuse=diffuse, fxref=fxref, marker=marker, np=3 * n, n=n,
                pos=' '.join(map(str, pos)), nt=len(tris) // 3, tris=' '.join(map(str, tris)),
                tr=' '.join(map(str, tr)), sc=' '.join(map(str, sc)))


def _xml(s):
    return s.replace('&', '&amp;').replace('<', '&lt;').replace('>', '&gt;')


# ----------------------------------------------------------------------------- snapshot (public API only)

def _arr(a):
    return None if a is None else [list(a.shape), a.tolist()]


def _value(v):
    from collada import material
    if v is None:
        return None
    if isinstance(v, material.Map):
        return ['map', v.sampler.id, v.sampler.surface.id, v.sampler.surface.image.id, v.sampler.surface.image.path, v.texcoord]
    if isinstance(v, (tuple, list)):
        return list(v)
    return v


def _node(n):
    from collada import scene
    if isinstance(n, scene.Node):
        return ['node', n.id, _arr(n.matrix), [[type(t).__name__, _arr(t.matrix)] for t in n.transforms],
                [_node(c) for c in n.children]]
    if isinstance(n, scene.GeometryNode):
        return ['geom', n.geometry.id, [[m.symbol, m.target.id] for m in n.materials]]
    return [type(n).__name__]


def snapshot(c):
    a = c.assetInfo
    out = dict(
        asset=[str(a.upaxis), a.unitname, a.unitmeter, a.title],
        images=[[i.id, i.path] for i in c.images],
        effects=[[e.id, e.shadingtype] + [[k, _value(getattr(e, k, None))] for k in e.supported] for e in c.effects],
        materials=[[m.id, m.name, m.effect.id] for m in c.materials],
        geometries=[[g.id, g.name, sorted([k, _arr(getattr(s, 'data', None))] for k, s in g.sourceById.items()
                                          if hasattr(s, 'data')),
                     [[type(p).__name__, p.material, _arr(p.index), _arr(p.vertex), _arr(p.vertex_index)]
                      for p in g.primitives]] for g in c.geometries],
        nodes=[_node(n) for n in c.nodes],
        scenes=[[s.id, [_node(n) for n in s.nodes]] for s in c.scenes],
        scene=None if c.scene is None else c.scene.id,
        cameras=[x.id for x in c.cameras], lights=[x.id for x in c.lights],
        controllers=[x.id for x in c.controllers], animations=[x.id for x in c.animations],
        errors=[type(e).__name__ for e in c.errors],
    )
    if c.scene is not None:
        bound = []
        for bg in c.scene.objects('geometry'):
            prims = []
            for bp in bg.primitives():
                prims.append([type(bp).__name__, getattr(bp.material, 'id', None), _arr(bp.vertex), _arr(bp.vertex_index)])
            bound.append([bg.original.id, _arr(bg.matrix), prims])
        out['bound'] = bound
    return json.dumps(out, sort_keys=True, default=str)


# ----------------------------------------------------------------------------- naive reading of the property (oracle)

def is_doc_name(n):
    return n.lower().endswith('.dae')


def is_decoy_name(n):
    """resource-fork decoys live under a __MACOSX directory"""
    return '__MACOSX' in n.split('/')


def expected_member(names, zf):
    """-> member name | INCOMPLETE | ('any', [members]) | None (the property does not say)"""
    if zf is not None:
        return zf if zf in names else INCOMPLETE
    cands = [n for n in names if is_doc_name(n)]
    real = [n for n in cands if not is_decoy_name(n)]
    if len(real) == 1:
        return real[0]
    if real:
        return ('any', real)
    if not cands:
        return INCOMPLETE
    return None


def naive_resolve(doc_path, rel):
    """the file `rel` names relative to the document's own location, as a container path; None if it
    leaves the container root"""
    comps = doc_path.split('/')[:-1]
    comps = [c for c in comps if c != '']
    for c in rel.split('/'):
        if c in ('', '.'):
            continue
        if c == '..':
            if not comps:
                return None
            comps.pop()
        else:
            comps.append(c)
    return '/'.join(comps)


# ----------------------------------------------------------------------------- layouts

DIRS = ['a', 'b', 'models', 'Sub Dir', 'x.y', 'd1']
DOCNAMES = ['scene.dae', 'Model.DAE', 'x.Dae', 'doc.dAe', 'm.dae', 'my model.dae', 'a.b.dae', '.dae']
OTHERNAMES = ['readme.txt', 'notes.dae.bak', 'xdae', 'DAE', 'model.xml', 'manifest.xml', 'dae.png']
AUX = ['t0.png', 't1.png', 'tex.jpg', 'sub/t0.png', 'sub/t2.png', 'sub/deep/t3.png', 'up.png']
JUNK = b'\x00\x05\x16\x07\x00\x02\x00\x00Mac OS X        \x00\x02'


def rel_forms(rng):
    """image paths as written in <init_from>, with their form label"""
    x = rng.choice(['t0.png', 't1.png', 'tex.jpg', 'up.png', 'nope.png', 'T0.png', 'TEX.JPG'])     # (names that differ in case are different names)
    forms = [
        ('dot', './' + x), ('plain', x), ('sub', 'sub/' + rng.choice(['t0.png', 't2.png', 'nope.png'])),
        ('dotsub', './sub/' + rng.choice(['t0.png', 'deep/t3.png'])), ('up', '../' + x), ('upup', '../../' + x),
        ('subup', 'sub/../' + x), ('dotup', './../' + x), ('updown', '../' + rng.choice(DIRS) + '/' + x),
        ('dslash', 'sub//t0.png'), ('dir', rng.choice(['sub', './sub', 'sub/', 'sub/deep', '.', '..'])),
        ('upupup', '../../../' + x), ('trail', './' + x + '/.'), ('case', x.swapcase()), ('casedot', './' + x.upper()),
    ]
    return forms


def gen_layout(rng):
    """-> dict(blobs=[latin1 str], docs={blob: [image paths]}, entries=[[name, blob]], mains=[names], kinds={...})"""
    blobs = []

    def blob(b):
        blobs.append(b)
        return len(blobs) - 1
    docs = {}
    style = rng.choice(['one', 'one', 'several', 'several', 'decoys-only', 'none', 'several'])
    forms = rel_forms(rng)
    rng.shuffle(forms)
    img_paths = [p for _, p in forms[:rng.randint(3, 6)]]
    if rng.random() < 0.5 and not any(f == 'dir' for f, _ in forms[:len(img_paths)]) and rng.random() < 0.5:
        img_paths.append(dict(forms)['dir'])
    entries = []
    used = set()

    def add(name, b):
        if name == '':
            return False
        a = name.rstrip('/')
        for u in used:
            v = u.rstrip('/')
            # a file may not also be a directory of another entry
            if a == v or (v.startswith(a + '/') and not name.endswith('/')) or (a.startswith(v + '/') and not u.endswith('/')):
                return False
        used.add(name)
        entries.append([name, b])
        return True

    def rdir():
        d = rng.choice([0, 0, 1, 1, 2, 3])
        return [rng.choice(DIRS) for _ in range(d)]

    def add_doc(dirs, fname, broken=False, paths=None):
        marker = 'g%d' % len(blobs)
        paths = img_paths if paths is None else paths
        b = blob(make_doc(rng, marker, paths, broken).encode('utf-8'))
        if add('/'.join(dirs + [fname]), b):
            docs[b] = list(paths)
            return '/'.join(dirs + [fname])
        return None

    ndocs = {'one': 1, 'several': rng.randint(2, 3), 'decoys-only': 0, 'none': 0}[style]
    members = []
    for i in range(ndocs):
        dirs = rdir()
        nm = add_doc(dirs, rng.choice(DOCNAMES), broken=rng.random() < 0.12,
                     paths=None if rng.random() < 0.7 else [p for _, p in rel_forms(rng)[:3]])
        if nm is None:
            continue
        members.append(nm)
        # auxiliary files around this document (most image paths resolve, some do not)
        for p in docs[entries[-1][1]]:
            tgt = naive_resolve(nm, p)
            if tgt and rng.random() < 0.8 and not tgt.endswith('nope.png') and (tgt == tgt.lower() or rng.random() < 0.5):
                if any(p.rstrip('/.').endswith(x) for x in ('sub', 'deep')) or p in ('.', '..'):
                    continue
                add(tgt, blob(('PNG%d:%s' % (len(blobs), tgt)).encode('latin-1')))
        if rng.random() < 0.5:
            add('/'.join(dirs + ['sub', 'deep', 't3.png']), blob(b'PNGdeep%d' % len(blobs)))
    ndecoy = rng.choice([0, 1, 1, 2]) if style != 'decoys-only' else rng.randint(1, 3)
    if style == 'none':
        ndecoy = 0
    decoys = []
    for i in range(ndecoy):
        base = rng.choice(members) if members and rng.random() < 0.7 else '/'.join(rdir() + [rng.choice(DOCNAMES)])
        d, f = posixpath.split(base)
        name = rng.choice(['__MACOSX/' + (d + '/' if d else '') + '._' + f, '__MACOSX/._' + f,
                           (d + '/' if d else '') + '__MACOSX/._' + f])
        content = blob(JUNK + bytes([i])) if rng.random() < 0.6 else None
        if content is None:
            content = blob(make_doc(rng, 'g%d' % len(blobs), img_paths).encode('utf-8'))
            docs[content] = list(img_paths)
        if add(name, content):
            decoys.append(name)
    others = []
    for i in range(rng.randint(0, 3)):
        nm = '/'.join(rdir() + [rng.choice(OTHERNAMES)])
        if nm.endswith('.xml') and rng.random() < 0.7:
            b = blob(make_doc(rng, 'g%d' % len(blobs), img_paths).encode('utf-8'))
            docs[b] = list(img_paths)
        else:
            b = blob(('other%d' % len(blobs)).encode())
        if add(nm, b):
            others.append(nm)
    if rng.random() < 0.3:
        add(rng.choice(['sub/', 'a/', 'models/x.dae/']), blob(b''))
    rng.shuffle(entries)
    if decoys and rng.random() < 0.5:
        # decoys in a definite position: all first, all last, or around the first document
        dec_e = [e for e in entries if e[0] in decoys]
        rest = [e for e in entries if e[0] not in decoys]
        where = rng.choice(['first', 'last', 'split'])
        entries = dec_e + rest if where == 'first' else rest + dec_e if where == 'last' else dec_e[:1] + rest + dec_e[1:]
    return dict(blobs=[b.decode('latin-1') for b in blobs], docs={str(k): v for k, v in docs.items()}, entries=entries,
                members=members, decoys=decoys, others=others, style=style)


def gen_select_layout(rng, names):
    """a layout whose entries are `names`, every one holding a (distinct) valid document"""
    blobs, docs, entries = [], {}, []
    for n in names:
        blobs.append(make_doc(rng, 'g%d' % len(blobs), ['./t0.png']).encode('utf-8').decode('latin-1'))
        docs[str(len(blobs) - 1)] = ['./t0.png']
        entries.append([n, len(blobs) - 1])
    return dict(blobs=blobs, docs=docs, entries=entries, members=[n for n in names if is_doc_name(n) and not is_decoy_name(n)],
                decoys=[n for n in names if is_decoy_name(n)], others=[], style='select')


# ----------------------------------------------------------------------------- materialising a layout

IGNORES = {'.': None, 'B': ['DaeBrokenRefError'], 'E': ['DaeError'], 'I': ['DaeIncompleteError'],
           'BM': ['DaeBrokenRefError', 'DaeMalformedError']}
ZIP_SOURCES = ('zbio', 'zpath', 'zfobj')
# 'biooff': a file object positioned at the first byte of the document, behind something else; 'stream': a file object that cannot seek
DOC_SOURCES = ('path', 'bpath', 'relpath', 'bio', 'fobj', 'biooff', 'stream')


class Stream(io.RawIOBase):
    """a binary stream as a pipe or a socket gives it: readable, not seekable"""

    def __init__(self, data):
        self._b = io.BytesIO(data)

    def readable(self):
        return True

    def seekable(self):
        return False

    def readinto(self, b):
        return self._b.readinto(b)

    def seek(self, *a):
        raise io.UnsupportedOperation('seek')

    def tell(self):
        raise io.UnsupportedOperation('tell')



class World(object):
    """a layout as zip bytes and as a disk tree: root/t/<entries> is the tree, root/z/pack.zae the archive with
    different files of the same names next to it. Paths are kept relative to `root` until `materialize`."""

    def __init__(self, layout):
        self.layout = layout
        self.blobs = [b.encode('latin-1') for b in layout['blobs']]
        self.byid = {}
        for i, b in enumerate(self.blobs):
            self.byid.setdefault(b, i)
        self.entries = [(n, b) for n, b in layout['entries']]
        self.member = dict(self.entries)
        self.names = [n for n, _ in self.entries]
        self.root = None
        self.ref = {}
        self.files = []   # (path relative to root, blob id) of every regular file
        self.dirs = []
        docblobs = set(int(k) for k in layout['docs'])
        for n, b in self.entries:
            if n.endswith('/'):
                self.dirs.append('t/' + n)
                continue
            self.files.append(('t/' + n, b))
            if b not in docblobs:
                # the zip resolver must not read these
                self.blobs.append(b'DISK-NOT-ZIP:' + self.blobs[b])
                self.byid.setdefault(self.blobs[-1], len(self.blobs) - 1)
                self.files.append(('z/' + n, len(self.blobs) - 1))
        buf = io.BytesIO()
        with zipfile.ZipFile(buf, 'w') as z:
            for n, b in self.entries:
                z.writestr(n, self.blobs[b])
        self.zbytes = buf.getvalue()

    def materialize(self, tmp):
        self.root = os.path.join(tmp, 'r0', 'r1', 'r2')
        self.tree = os.path.join(self.root, 't')
        self.zpath = os.path.join(self.root, 'z', 'pack.zae')
        os.makedirs(self.tree)
        os.makedirs(os.path.join(self.root, 'z'))
        for d in self.dirs:
            os.makedirs(os.path.join(self.root, d), exist_ok=True)
        for p, b in self.files:
            path = os.path.join(self.root, p)
            os.makedirs(os.path.dirname(path), exist_ok=True)
            with open(path, 'wb') as f:
                f.write(self.blobs[b])
        with open(self.zpath, 'wb') as f:
            f.write(self.zbytes)


def loader_table(world, run):
    """the user's loader as a table raw-name -> blob (fresh blobs: neither disk nor zip content)"""
    if run.get('loader') is None:
        return None
    table = {}
    for name in run['loader']:
        # some of the files the loader knows are empty: an empty file is still a file
        data = b'' if sum(name.encode('latin-1', 'replace')) % 4 == 0 else ('LOADER:' + name).encode('latin-1')
        if data not in world.byid:
            world.blobs.append(data)
            world.byid[data] = len(world.blobs) - 1
        table[name] = world.byid[data]
    return table


def real_run(world, run):
    """execute one run on the real code. -> dict(outcome, member, snap, imgs=[(path, access)], second_ok, nerr)"""
    import collada
    from collada import common
    ignore = IGNORES[run['ignore']]
    ignore = None if ignore is None else [getattr(common, n) for n in ignore]
    table = loader_table(world, run)
    kw = {}
    if table is not None:
        kw['aux_file_loader'] = lambda fname: None if table.get(fname) is None else world.blobs[table[fname]]
    if run['zf'] is not None:
        kw['zip_filename'] = run['zf']
    if ignore is not None:
        kw['ignore'] = ignore
    src = run['src']
    fh = None
    cwd = None
    try:
        if src in ('path', 'bpath', 'relpath', 'fobj'):
            p = os.path.join(world.tree, run['doc'])
            if src == 'bpath':
                arg = os.fsencode(p)
            elif src == 'relpath':
                cwd = os.getcwd()
                os.chdir(os.path.join(world.tree, run['cwd']) if run['cwd'] else world.tree)
                arg = os.path.relpath(p)
            elif src == 'fobj':
                arg = fh = open(p, 'rb')
            else:
                arg = p
        elif src == 'bio':
            arg = io.BytesIO(world.blobs[world.member[run['doc']]])
        elif src == 'biooff':
            arg = io.BytesIO(b'HEADER: 12 bytes\r\n\r\n' + world.blobs[world.member[run['doc']]])
            arg.seek(20)
        elif src == 'stream':
            arg = io.BufferedReader(Stream(world.blobs[world.member[run['doc']]]))
        elif src == 'zbio':
            arg = io.BytesIO(world.zbytes)
        elif src == 'zpath':
            arg = world.zpath
        elif src == 'zfobj':
            arg = fh = open(world.zpath, 'rb')
        else:
            raise AssertionError(src)
        res = dict(outcome='ok', member=None, snap=None, imgs=[], cache_ok=True, errs_ok=True)
        try:
            c = collada.Collada(arg, **kw)
        except common.DaeError as e:
            res['outcome'] = type(e).__name__
            return res
        except Exception as e:
            res['outcome'] = 'raw:' + type(e).__name__
            return res
        if fh is not None:
            # the caller's file object is the caller's: closed as soon as the constructor returns (auxiliary files are read later)
            fh.close()
            fh = None
        res['member'] = c.filename
        res['snap'] = snapshot(c)
        for im in c.images:
            nerr = len(c.errors)
            try:
                d = im.data
            except common.DaeError as e:
                acc = 'r' + type(e).__name__.replace('Dae', '').replace('Error', '')
            except Exception as e:
                acc = 'raw:' + type(e).__name__
            else:
                if isinstance(d, (bytes, bytearray)) and (d or len(c.errors) == nerr):
                    # bytes came back (an empty file gives empty bytes and records nothing)
                    acc = 'd%s' % world.byid.get(bytes(d), '?')
                    try:
                        if im.data != d:
                            res['cache_ok'] = False
                    except Exception:
                        res['cache_ok'] = False
                elif not d:
                    acc = 'e'
                    if not c.errors[nerr:] or not isinstance(c.errors[-1], common.DaeBrokenRefError):
                        res['errs_ok'] = False
                else:
                    acc = 'd?'
            res['imgs'].append((im.path, acc))
        return res
    finally:
        if fh is not None:
            fh.close()
        if cwd is not None:
            os.chdir(cwd)


def reference(world, blob, ig):
    """outcome of loading the plain bytes of `blob` from a BytesIO: snapshot or error class"""
    import collada
    from collada import common
    key = (blob, ig)
    if key not in world.ref:
        ignore = IGNORES[ig]
        ignore = None if ignore is None else [getattr(common, n) for n in ignore]
        try:
            c = collada.Collada(io.BytesIO(world.blobs[blob]), ignore=ignore)
            world.ref[key] = ('ok', snapshot(c))
        except common.DaeError as e:
            world.ref[key] = (type(e).__name__, None)
        except Exception as e:
            world.ref[key] = ('raw:' + type(e).__name__, None)
    return world.ref[key]


# ----------------------------------------------------------------------------- model line

def model_line(world, run, all_imgs):
    src = run['src']
    if src in DOC_SOURCES:
        payload = 'd=%d' % world.member[run['doc']]
    else:
        payload = 'z=' + pairs(world.entries)
    fs = pairs([('/R/' + p, b) for p, b in world.files]) or '.'
    cwd = '/'
    if src in ('path', 'bpath'):
        origin = 'p=' + enc('/R/t/' + run['doc'])
    elif src == 'relpath':
        cwd = '/R/t/' + run['cwd'] if run['cwd'] else '/R/t'
        origin = 'p=' + enc(posixpath.relpath('/R/t/' + run['doc'], cwd))
    elif src == 'zpath':
        origin = 'p=' + enc('/R/z/pack.zae')
    else:
        origin = 'f'
        fs = '.'
    zf = '-' if run['zf'] is None else '=' + enc(run['zf'])
    table = loader_table(world, run)
    ld = '-' if table is None else '+' + pairs(sorted(table.items()))
    imgs = ','.join(enc(p) for p in all_imgs) or '.'
    return 'case %s %s %s %s %s %s %s %s' % (origin, zf, ld, run['ignore'], enc(cwd), fs, payload, imgs)


def parse_answer(ans):
    """'ok file=.. data=.. res=.. imgs=..' -> dict | 'err Incomplete' -> dict"""
    if ans.startswith('err '):
        return dict(outcome='Dae%sError' % ans[4:])
    if not ans.startswith('ok '):
        return dict(outcome='model:' + ans)
    f = dict(kv.split('=', 1) for kv in ans[3:].split(' '))
    return dict(outcome='ok', member=None if f['file'] == '-' else dec(f['file'][1:]), data=int(f['data']),
                res=f['res'], imgs=f['imgs'].split(',') if f['imgs'] else [])


# ----------------------------------------------------------------------------- the two judges

def form_of(path):
    if path in ('.', '..') or path.rstrip('/').endswith(('sub', 'deep')):
        return 'dir'
    k = path.count('../')
    pre = 'dot' if path.startswith('./') else ''
    if 'sub/../' in path:
        return 'subup'
    if '//' in path:
        return 'dslash'
    if k:
        return pre + 'up' * min(k, 3) + ('down' if path.count('/') > k + (1 if pre else 0) else '')
    if 'sub/' in path:
        return pre + 'sub'
    if path.endswith('/.'):
        return 'trail'
    return pre or 'plain'


def oracle(world, run, res):
    """naive reading of the property on one run of the real code -> None | (signature, text)"""
    src = run['src']
    zipsrc = src in ZIP_SOURCES
    names = world.names
    ig = run['ignore']
    if res['outcome'].startswith('raw:'):
        return ('load:%s:%s' % (src, res['outcome']), 'loading raised %s, not a DaeError' % res['outcome'][4:])
    # 1. which document
    if zipsrc:
        exp = expected_member(names, run['zf'])
        if exp == INCOMPLETE:
            if res['outcome'] != INCOMPLETE:
                return ('select:%s:no-document' % ('byname' if run['zf'] is not None else 'auto'),
                        'archive %s with zip_filename=%r has no such document but loading gave %s (member %r)'
                        % (names, run['zf'], res['outcome'], res.get('member')))
            return None
        if exp is None:
            # only decoys: the statement is silent; still, what was loaded must be a member, loaded faithfully
            if res['outcome'] == INCOMPLETE:
                return None
            if res['outcome'] != 'ok':
                # cannot see the member; accept any member's reference outcome
                if any(reference(world, b, ig)[0] == res['outcome'] for n, b in world.entries):
                    return None
                return ('select:auto:decoys-only', 'archive %s: outcome %s is no member\'s outcome' % (names, res['outcome']))
            member = res['member']
        elif isinstance(exp, tuple):
            if res['outcome'] == 'ok':
                member = res['member']
                if member not in exp[1]:
                    return ('select:auto:not-a-document', 'archive %s: automatically selected %r, which is not one of the genuine '
                            'documents %s' % (names, member, exp[1]))
            else:
                outs = [reference(world, world.member[m], ig)[0] for m in exp[1]]
                if res['outcome'] not in outs:
                    return ('select:auto:outcome', 'archive %s: outcome %s but the genuine documents %s load as %s'
                            % (names, res['outcome'], exp[1], outs))
                return None
        else:
            member = exp
            if res['outcome'] == 'ok' and res['member'] != exp:
                return ('select:%s:wrong-member' % ('byname' if run['zf'] is not None else 'auto'),
                        'archive %s zip_filename=%r: selected %r, expected %r' % (names, run['zf'], res['member'], exp))
        if member not in names:
            return ('select:not-a-member', 'archive %s: Collada.filename is %r' % (names, member))
        blob = world.member[member]
    else:
        member = run['doc']
        blob = world.member[member]
    ref = reference(world, blob, ig)
    if res['outcome'] != ref[0]:
        return ('model:%s:outcome' % src, 'loading %r from %s gave %s but the same bytes from BytesIO give %s'
                % (member, src, res['outcome'], ref[0]))
    if res['outcome'] != 'ok':
        return None
    if res['snap'] != ref[1]:
        return ('model:%s:snapshot' % src, 'loading %r from %s (zip_filename=%r, loader=%s) gives a different model than the same bytes from BytesIO'
                % (member, src, run['zf'], run['loader'] is not None))
    # 2. auxiliary files
    table = loader_table(world, run)
    masked = ig in ('B', 'E', 'BM')
    miss = 'e' if masked else 'rBrokenRef'
    for path, acc in res['imgs']:
        if table is not None:
            want = miss if table.get(path) is None else 'd%d' % table[path]
            kind = 'loader'
        elif zipsrc:
            tgt = naive_resolve(member, path)
            kind = 'zip'
            want = miss
            if tgt is not None and tgt in names and not tgt.endswith('/'):
                want = 'd%d' % world.byid[world.blobs[world.member[tgt]]]
        elif src in ('path', 'bpath', 'relpath'):
            base = os.path.join(world.tree, member)
            tgt = naive_resolve(base, path)
            kind = 'disk'
            want = miss
            if tgt is not None:
                hit = [b for p, b in world.files if os.path.join(world.root, p) == '/' + tgt]
                if hit:
                    want = 'd%d' % world.byid[world.blobs[hit[0]]]
        else:
            kind = 'none'
            want = miss
        if acc != want:
            got = acc if acc.startswith(('raw:', 'r')) or acc == 'e' else 'data'
            exp_s = want if want in ('e', 'rBrokenRef') else 'data'
            return ('aux:%s:%s' % (kind, got) if got.startswith('raw:') else 'aux:%s:%s:%s->%s' % (src, kind, exp_s, got),
                    'document %r loaded from %s (loader=%s, ignore=%s): image path %r should give %s but the first '
                    'CImage.data access gave %s' % (member, src, table is not None, IGNORES[ig], path,
                                                   _say(world, want), _say(world, acc)))
    if not res['cache_ok']:
        return ('aux:%s:cache' % src, 'second CImage.data access differs from the first')
    if not res['errs_ok']:
        return ('aux:%s:errors-list' % src, 'a failed CImage.data access did not record a DaeBrokenRefError in Collada.errors')
    return None


def _say(world, acc):
    if acc.startswith('d') and acc[1:].isdigit():
        return 'the bytes %r' % world.blobs[int(acc[1:])][:40]
    return {'e': 'an empty value with DaeBrokenRefError recorded', 'rBrokenRef': 'DaeBrokenRefError'}.get(acc, acc)


def compare(world, run, res, ans, all_imgs):
    """model answer vs implementation on property-relevant observables -> None | (signature, text)"""
    m = parse_answer(ans)
    ig = run['ignore']
    if m['outcome'] != 'ok':
        if res['outcome'] != m['outcome']:
            return ('corr:open:%s' % run['src'], 'model says %s, implementation %s' % (m['outcome'], res['outcome']))
        return None
    ref = reference(world, m['data'], ig)
    if res['outcome'] != ref[0]:
        return ('corr:open:%s' % run['src'], 'model loads blob %d (%s), implementation outcome %s' % (m['data'], ref[0], res['outcome']))
    if res['outcome'] != 'ok':
        return None
    if res['snap'] != ref[1]:
        return ('corr:data:%s' % run['src'], 'model loads blob %d, implementation loaded something else' % m['data'])
    if run['src'] in ZIP_SOURCES and res['member'] != m['member']:
        return ('corr:select', 'model selects %r, implementation %r' % (m['member'], res['member']))
    macc = dict(zip(all_imgs, m['imgs']))
    for path, acc in res['imgs']:
        if macc.get(path) != acc:
            return ('corr:aux:%s:%s' % (m['res'], form_of(path)), 'image path %r: model %s, implementation %s (resolver %s)'
                    % (path, macc.get(path), acc, m['res']))
    return None


# ----------------------------------------------------------------------------- runs of a layout

def runs_of(rng, layout, full):
    entries = layout['entries']
    names = [n for n, _ in entries]
    docs = [n for n, b in entries if str(b) in layout['docs'] and not n.endswith('/')]
    imgs = sorted(set(p for v in layout['docs'].values() for p in v))
    igs = list(IGNORES)

    def loader():
        if rng.random() < 0.5:
            return None
        return sorted(p for p in imgs if rng.random() < 0.6)

    zfs = [None]
    zfs += rng.sample(docs, min(len(docs), 2))
    zfs += rng.sample(layout['decoys'], min(len(layout['decoys']), 1))
    zfs += rng.sample(layout['others'], min(len(layout['others']), 1))
    zfs += ['', 'nope.dae', rng.choice(['sub/', 'scene.dae', 'MODEL.DAE', '/' + (names[0] if names else 'x')])]
    runs = []
    for src in ZIP_SOURCES:
        for zf in (zfs if full else [None] + rng.sample(zfs, 2)):
            for ld in ((None, loader() or []) if full or src == 'zbio' else (loader(),)):
                runs.append(dict(src=src, zf=zf, loader=ld, ignore=rng.choice(igs)))
    for doc in (docs[:2] if full else docs[:1]):
        dirs = doc.split('/')[:-1]
        for src in DOC_SOURCES:
            for zf in (None, rng.choice(zfs[1:])):
                ld = loader()
                r = dict(src=src, doc=doc, zf=zf, loader=ld, ignore=rng.choice(igs))
                if src == 'relpath':
                    k = rng.randint(0, len(dirs))
                    r['cwd'] = '/'.join(dirs[:k])
                runs.append(r)
                if ld is not None:
                    runs.append(dict(r, loader=None))
    return runs, imgs


def execute(layout, runs, imgs, tmp, model=None):
    """-> list of (run, res, oracle verdict, correspondence verdict)"""
    d = tempfile.mkdtemp(dir=tmp)
    try:
        world = World(layout)
        world.materialize(d)
        out = []
        for i, run in enumerate(runs):
            res = real_run(world, run)
            bad = oracle(world, run, res)
            corr = None
            if model is not None and bad is None:
                corr = compare(world, run, res, model[i], imgs)
            out.append((run, res, bad, corr))
        return out
    finally:
        shutil.rmtree(d, ignore_errors=True)


def lines_for(layout, runs, imgs):
    world = World(layout)
    return [model_line(world, run, imgs) for run in runs]


def fails(layout, run, imgs, tmp, sig):
    try:
        r = execute(layout, [run], imgs, tmp)
    except Exception:
        return False
    return r[0][2] is not None and r[0][2][0] == sig


def shrink(layout, run, imgs, tmp, sig):
    """drop archive entries and loader names that are not needed for the failure"""
    layout = json.loads(json.dumps(layout))
    changed = True
    while changed:
        changed = False
        for i in range(len(layout['entries']) - 1, -1, -1):
            if layout['entries'][i][0] == run.get('doc'):
                continue
            cand = dict(layout, entries=layout['entries'][:i] + layout['entries'][i + 1:])
            cand['decoys'] = [n for n in cand['decoys'] if n in [e[0] for e in cand['entries']]]
            if fails(cand, run, imgs, tmp, sig):
                layout = cand
                changed = True
    if run.get('loader'):
        for n in list(run['loader']):
            cand = dict(run, loader=[x for x in run['loader'] if x != n])
            if fails(layout, cand, imgs, tmp, sig):
                run = cand
    return layout, run


# ----------------------------------------------------------------------------- path functions (modelled runtime)

def gen_path(rng):
    n = rng.randint(0, 9)
    return ''.join(rng.choice(['a', 'b', '.', '.', '/', '/', '..', 'c d', '/']) for _ in range(n))


def path_stream(rng, n):
    lines, want = [], []
    for _ in range(n):
        k = rng.choice(['norm', 'dirname', 'join', 'aux'])
        p, q = gen_path(rng), gen_path(rng)
        if k == 'norm':
            lines.append('norm ' + enc(p))
            want.append(enc(posixpath.normpath(p)))
        elif k == 'dirname':
            lines.append('dirname ' + enc(p))
            want.append(enc(posixpath.dirname(p)))
        elif k == 'join':
            lines.append('join %s %s' % (enc(p), enc(q)))
            want.append(enc(posixpath.join(p, q)))
        else:
            lines.append('aux %s %s' % (enc(p), enc(q)))
            want.append(enc(posixpath.normpath(posixpath.join(posixpath.dirname(p), q))))
    return lines, want


MALFORMED = ['', 'select', 'norm', 'norm a b', 'join a', 'case f', 'case f - - . / . d=x .', 'case q - - . / . d=1 .',
             'case f - - Q / . d=1 .', 'case f - - . / . z=a .', 'case f - - . / . z=a:b .', 'norm %4', 'norm %zz', 'select ? a',
             'frobnicate 1 2', 'aux a', 'case f - +a . / . d=1 .', 'dirname', 'case f - - . . d=1 .']


# ----------------------------------------------------------------------------- run / replay

def select_lists(rng, full):
    """small name lists: every arrangement of genuine documents, decoys and other names"""
    alpha = ['a.dae', 'd/B.DAE', '__MACOSX/._a.dae', '__MACOSX/d/._B.DAE', 'readme.txt', 'xdae']
    out = [[]]
    import itertools
    maxlen = 4 if full else 3
    for k in range(1, maxlen + 1):
        for combo in itertools.permutations(alpha, k):
            out.append(list(combo))
    if not full:
        rng.shuffle(out)
        out = out[:160]
    return out


def run(ctx):
    ctx.rule = ('generated archive layouts: 0-3 hand-written documents at depth 0-3 with mixed-case .dae extensions, 0-3 '
                '__MACOSX resource-fork decoys (junk or document content) placed first / last / around / shuffled, other members '
                '(.xml documents, near-miss names, directory entries), auxiliary files around each document so that most '
                'image paths of the forms ./x x sub/x ../x ../../x sub/../x ./../x ../d/x sub//x dir resolve and some do not; '
                'each layout is written to a private temp dir as tree and as zip and loaded from str path, bytes path, relative '
                'path, BytesIO, file object, zip BytesIO, zip path, zip file object x zip_filename (none, documents, decoy, '
                'non-.dae document, "", absent names) x aux_file_loader (none / table with gaps) x ignore mask; plus all '
                'arrangements of up to 3-4 names out of {2 documents, 2 decoys, 2 others}; a run counts as non-trivial when it '
                'is a zip with two or more candidates, a decoy or a zip_filename, or when an image path resolved to data; '
                'distinct = distinct (member names in order, run arguments)')
    tmp = tempfile.mkdtemp(prefix='c16_')
    try:
        _run(ctx, tmp)
    finally:
        shutil.rmtree(tmp, ignore_errors=True)
    ctx.assumptions.append('zipfile, open/os.path.exists and str methods are modelled; posixpath.normpath/dirname/join are '
                           're-implemented in Pyc/Model/Container.lean and compared with CPython on random strings each run; '
                           'os.path = posixpath (Linux); ASCII member names')


def _run(ctx, tmp):
    rng = ctx.rng
    nlay = ctx.n(260, 2000)
    work = []   # (layout, runs, imgs)
    for i in range(nlay):
        lay = gen_layout(rng)
        runs, imgs = runs_of(rng, lay, full=ctx.thorough or i % 4 == 0)
        work.append((lay, runs, imgs))
    for names in select_lists(rng, ctx.thorough):
        lay = gen_select_layout(rng, names)
        runs = [dict(src='zbio', zf=None, loader=None, ignore='.')]
        if names and rng.random() < 0.3:
            runs.append(dict(src='zbio', zf=rng.choice(names), loader=None, ignore='.'))
        work.append((lay, runs, ['./t0.png']))
    lines = []
    for lay, runs, imgs in work:
        lines.extend(lines_for(lay, runs, imgs))
    plines, pwant = path_stream(rng, ctx.n(3000, 60000))
    model = None
    if ctx.lean_ok:
        import time
        t0 = time.time()
        model = ctx.driver('C16', lines + plines + MALFORMED)
        ctx.notes['driver'] = '%d lines, %d bytes, %.1f s' % (len(lines) + len(plines) + len(MALFORMED), sum(map(len, lines)), time.time() - t0)
    reported = set()
    pos = 0
    for lay, runs, imgs in work:
        got = execute(lay, runs, imgs, tmp, None if model is None else model[pos:pos + len(runs)])
        pos += len(runs)
        names = [n for n, _ in lay['entries']]
        ncand = len([n for n in names if is_doc_name(n)])
        for run, res, bad, corr in got:
            zipsrc = run['src'] in ZIP_SOURCES
            resolved = any(a.startswith('d') for _, a in res.get('imgs', []))
            ctx.case(dict(names=names, run=run), nontrivial=(zipsrc and (ncand >= 2 or lay['decoys'] or run['zf'] is not None)) or resolved)
            ctx.count('src:' + run['src'])
            ctx.count('outcome:' + res['outcome'])
            ctx.count('loader:' + ('yes' if run['loader'] is not None else 'no'))
            ctx.count('ignore:' + run['ignore'])
            if zipsrc:
                zf = run['zf']
                ctx.count('zf:' + ('none' if zf is None else 'document' if zf in lay['members'] else 'decoy' if zf in lay['decoys']
                                   else 'other-member' if zf in names else 'absent'))
                if zf is None:
                    ctx.count('auto:candidates=%d,decoys=%d' % (min(ncand, 4), min(len(lay['decoys']), 3)))
                    cands = [n for n in names if is_doc_name(n)]
                    if cands and is_decoy_name(cands[0]):
                        ctx.count('auto:decoy-first')
                    if cands and is_decoy_name(cands[-1]):
                        ctx.count('auto:decoy-last')
                if res['outcome'] == 'ok' and res['member']:
                    ctx.count('member-depth:%d' % res['member'].count('/'))
                    if not res['member'].endswith('.dae'):
                        ctx.count('member:not-lowercase-.dae')
            for path, acc in res.get('imgs', []):
                kind = 'loader' if run['loader'] is not None else 'zip' if zipsrc else 'disk' if run['src'] in ('path', 'bpath', 'relpath') else 'none'
                ctx.count('img:%s:%s' % (kind, 'data' if acc.startswith('d') else acc))
                ctx.count('imgform:%s:%s' % (form_of(path), 'found' if acc.startswith('d') else 'missing'))
            if bad is not None:
                if bad[0] not in reported:
                    reported.add(bad[0])
                    slay, srun = shrink(lay, run, imgs, tmp, bad[0])
                    r = execute(slay, [srun], imgs, tmp)[0]
                    what = r[2][1] if r[2] else bad[1]
                    ctx.violation(bad[0], what, dict(kind='oracle', layout=slay, run=srun, imgs=imgs, signature=bad[0]))
            elif corr is not None:
                if corr[0] not in reported:
                    reported.add(corr[0])
                    ctx.violation(corr[0], 'correspondence Pyc.Container <-> collada.Collada broke: %s; archive %s, run %s; the property oracle '
                                  'found no failing input on this run (theorems of Pyc/Props/C16.lean no longer describe the code)'
                                  % (corr[1], names, run), dict(kind='correspondence', layout=lay, run=run, imgs=imgs, signature=corr[0]),
                                  found_input=False)
    ctx.violations.sort(key=lambda v: not v['found_input'])   # replays with a failing input first
    if model is not None:
        got = model[pos:pos + len(plines)]
        for ln, w, g in zip(plines, pwant, got):
            ctx.count('path:' + ln.split(' ')[0])
            if w != g and 'corr:posixpath' not in reported:
                reported.add('corr:posixpath')
                ctx.violation('corr:posixpath', 'Pyc.Container path functions differ from CPython posixpath on %r: model %r, CPython %r'
                              % (ln, g, w), dict(kind='posixpath', line=ln, model=g, cpython=w), found_input=False)
        ctx.evaluations += len(plines)
        mal = model[pos + len(plines):]
        ctx.count('malformed-lines', len(mal))
        if any(a != 'bad-op' for a in mal) and 'corr:protocol' not in reported:
            ctx.violation('corr:protocol', 'driver accepted a malformed line: %r' % [(l, a) for l, a in zip(MALFORMED, mal) if a != 'bad-op'],
                          dict(kind='protocol'), found_input=False)


def replay(ctx, rep):
    if rep.get('kind') not in ('oracle', 'correspondence'):
        print('  not a case on the real code: %s' % rep.get('kind'))
        return False
    tmp = tempfile.mkdtemp(prefix='c16_')
    try:
        r = execute(rep['layout'], [rep['run']], rep['imgs'], tmp)[0]
    finally:
        shutil.rmtree(tmp, ignore_errors=True)
    if r[2]:
        print('  %s: %s' % r[2])
    return r[2] is not None
