"""C14 — id-indexed library lists stay coherent under every mutation.

Correspondence: random operation sequences on collada.util.IndexedList (directly and through
the Collada library attributes) vs Pyc.IL.step (lean/drv/C14.lean), compared after every
operation: outcome class, list contents (object identity), id index contents.
Direct oracle on the implementation: coherence of lookup / membership / get() with the list,
plain-list positional behaviour against a shadow list, failed operation leaves both unchanged.
"""
import copy

PID = 'C14'
META = dict(
    level_text=('Proof: Pyc/Props/C14.lean proves, for every initial list and every finite sequence of mutators in every '
                'argument form, that the id index stays coherent with the list (coherent_reachable), that failed operations '
                'change nothing and that positional behaviour is the plain list one. The model is tied to collada/util.py on '
                'every run by a differential check after every operation of random sequences, and the property itself is '
                'evaluated directly on the real object, which is what yields replays.'),
    level_note=('Trusted: Lean kernel; axioms propext/Quot.sound/Classical.choice only; the hand-written model Pyc/Model/IndexedList.lean '
                'and the op-sequence generator/canonicaliser in props/c14.py; CPython list/dict semantics are modelled. Renaming an '
                'element id behind the list is outside the quantifier (handled under C02/C07).'),
    technique='Lean 4 invariant proof by induction over operation sequences + per-operation correspondence with collada.util.IndexedList',
)
LEAN_MODULES = ['Pyc.Model.IndexedList']
IDS = ['aa', 'bb', 'cc', 'dd', '']       # the empty string is an id like any other (a key that is falsy)


# ids asked for: those in use, one that is not, and look-alikes of those in use (a URI fragment, other case, padding)
PROBES = IDS + ['zz', '#aa', '#bb', '#', 'AA', ' aa', 'aa ']


def tok(i):
    """an id as a word of the line protocol"""
    return i if i != '' else '%'

LIBS = ['geometries', 'controllers', 'animations', 'lights', 'cameras', 'images', 'effects',
        'materials', 'nodes', 'scenes']


class O(object):
    def __init__(self, uid, id):
        self.uid = uid
        self.id = id

    def __repr__(self):
        return '%d:%s' % (self.uid, tok(self.id))

    def __len__(self):
        # library elements may be containers that are empty (a Morph without targets, a Skin without joints): such an element is falsy
        return 0 if self.uid % 3 == 0 else 2


def gen_sequence(rng, maxops):
    """returns (host, init, ops): ops are tuples in protocol vocabulary, objects as (uid, id)"""
    nobj = rng.randint(3, 10)
    pool = [(u, rng.choice(IDS)) for u in range(nobj)]
    pick = lambda: rng.choice(pool)
    picks = lambda lo, hi: [pick() for _ in range(rng.randint(lo, hi))]
    init = picks(0, 6)
    host = rng.choice(['plain'] + LIBS) if rng.random() < 0.5 else 'plain'

    def pos():
        return rng.choice([0, 0, 1, 2, 3, -1, -1, -2, -3, 5, 9, -9, rng.randint(-12, 12)])

    def arg():
        # a position may be any integer-like object: int, numpy integer, an object with __index__
        return ('k', rng.choice(IDS + ['zz'])) if rng.random() < 0.4 else ('p', pos(), rng.choice(['int', 'int', 'np64', 'np8', 'index']))

    def bound():
        return None if rng.random() < 0.3 else pos()

    ops = []
    for _ in range(rng.randint(1, maxops)):
        k = rng.choice(['append', 'extend', 'iadd', 'insert', 'insert', 'setitem', 'setitem', 'setslice',
                        'delitem', 'delitem', 'delslice', 'pop', 'pop', 'removeobj', 'removekey', 'removeobj',
                        'clear', 'imul', 'replace', 'selfassign', 'badassign'])
        if k == 'append':
            ops.append((k, pick()))
        elif k in ('extend', 'iadd', 'replace'):
            if k == 'replace' and rng.random() < 0.6:
                continue
            # the argument may be any iterable: a list, a tuple, or something that can be walked only once
            ops.append((k, picks(0, 3), rng.choice(['list', 'list', 'tuple', 'gen', 'iter', 'reversed'])))
        elif k == 'selfassign':
            # doc.lights = doc.lights / a generator or filter over it: the data assigned is (derived lazily from) the library itself
            ops.append((k, rng.choice(['same', 'gen', 'listcopy', 'filter-all'])))
        elif k == 'badassign':
            ops.append((k, rng.choice([5, None])))
        elif k in ('insert', 'setitem'):
            ops.append((k, arg(), pick()))
        elif k == 'setslice':
            ops.append((k, bound(), bound(), picks(0, 3)))
        elif k == 'delitem':
            ops.append((k, arg()))
        elif k == 'delslice':
            ops.append((k, bound(), bound()))
        elif k == 'pop':
            ops.append((k, None if rng.random() < 0.3 else arg()))
        elif k == 'removeobj':
            ops.append((k, pick()))
        elif k == 'removekey':
            ops.append((k, rng.choice(IDS + ['zz'])))
        elif k == 'clear':
            if rng.random() < 0.3:
                ops.append((k,))
        elif k == 'imul':
            if rng.random() < 0.4:
                ops.append((k, rng.choice([0, 1, 2, 2, 3])))
    return host, init, ops


def fo(o):
    return '%d:%s' % (o[0], tok(o[1]))


def fa(a):
    return '%s:%s' % (a[0], tok(a[1]) if a[0] == 'k' else a[1])


def fb(b):
    return '_' if b is None else str(b)


def op_line(op):
    k = op[0]
    if k in ('selfassign', 'badassign'):
        return 'extend'          # for the list model: nothing changes
    if k in ('append', 'removeobj'):
        return '%s %s' % (k, fo(op[1]))
    if k in ('extend', 'iadd', 'replace'):
        return ' '.join([k] + [fo(o) for o in op[1]])
    if k in ('insert', 'setitem'):
        return '%s %s %s' % (k, fa(op[1]), fo(op[2]))
    if k == 'setslice':
        return ' '.join([k, fb(op[1]), fb(op[2])] + [fo(o) for o in op[3]])
    if k == 'delitem':
        return '%s %s' % (k, fa(op[1]))
    if k == 'delslice':
        return '%s %s %s' % (k, fb(op[1]), fb(op[2]))
    if k == 'pop':
        return 'pop' if op[1] is None else 'pop %s' % fa(op[1])
    if k == 'removekey':
        return 'removekey %s' % tok(op[1])
    if k == 'clear':
        return 'clear'
    if k == 'imul':
        return 'imul %d' % op[1]
    raise ValueError(op)


def lines_of(case):
    host, init, ops = case
    return [' '.join(['new'] + [fo(o) for o in init])] + [op_line(op) for op in ops]


class Impl(object):
    """the real IndexedList, plus a plain-list shadow for the positional oracle"""

    def __init__(self, host, init):
        from collada.util import IndexedList
        import collada
        self.objs = {}
        self.host = host
        self.doc = None
        items = [self.obj(o) for o in init]
        if host == 'plain':
            self.L = IndexedList(items, ('id',))
        else:
            self.doc = collada.Collada()
            setattr(self.doc, host, items)
        self.shadow = list(items)

    def lst(self):
        return self.L if self.doc is None else getattr(self.doc, self.host)

    def obj(self, o):
        if o[0] not in self.objs:
            self.objs[o[0]] = O(o[0], ('.' + o[1])[1:])      # every element has its id in a string object of its own (equal ids, not identical ones; CPython shares one-character strings)
        return self.objs[o[0]]

    def state(self):
        L = self.lst()
        items = ','.join(str(o.uid) for o in list.__iter__(L))
        idx = ','.join(sorted('%s:%d' % (tok(k), v.uid) for k, v in L._index.items()))
        return 'items=%s index=%s' % (items, idx)

    def shadow_apply(self, op):
        """what a plain list does for the same request; a by-id argument means the position of an
        element carrying that id (the one the IndexedList names, when it names a carrier)"""
        L = self.lst()
        S = self.shadow
        k = op[0]

        def spos(a):
            if a[0] == 'p':
                return a[1]
            carriers = [o for o in S if o.id == a[1]]
            if not carriers:
                raise KeyError(a[1])
            named = L.get(a[1])
            target = named if any(named is c for c in carriers) else carriers[-1]
            return next(i for i, o in enumerate(S) if o is target)
        try:
            if k == 'append':
                S.append(self.obj(op[1]))
            elif k in ('extend', 'iadd'):
                S.extend([self.obj(o) for o in op[1]])
            elif k == 'replace':
                self.shadow = [self.obj(o) for o in op[1]]
            elif k == 'insert':
                S.insert(spos(op[1]), self.obj(op[2]))
            elif k == 'setitem':
                S[spos(op[1])] = self.obj(op[2])
            elif k == 'setslice':
                S[slice(op[1], op[2])] = [self.obj(o) for o in op[3]]
            elif k == 'delitem':
                del S[spos(op[1])]
            elif k == 'delslice':
                del S[slice(op[1], op[2])]
            elif k == 'pop':
                r = S.pop() if op[1] is None else S.pop(spos(op[1]))
                return 'val:%d' % r.uid
            elif k == 'removeobj':
                S.remove(self.obj(op[1]))
            elif k == 'removekey':
                try:
                    del S[spos(('k', op[1]))]
                except KeyError:
                    raise ValueError(op[1])
            elif k in ('selfassign', 'badassign'):
                pass
            elif k == 'clear':
                S.clear()
            elif k == 'imul':
                S *= op[1]
            else:
                raise AssertionError(op)
            return 'ok'
        except (IndexError, KeyError, ValueError) as e:
            return 'fail:' + type(e).__name__

    def iterable(self, op):
        xs = [self.obj(o) for o in op[1]]
        form = op[2] if len(op) > 2 else 'list'
        if form == 'tuple':
            return tuple(xs)
        if form == 'gen':
            return (x for x in xs)
        if form == 'iter':
            return iter(xs)
        if form == 'reversed':
            return reversed(xs[::-1])
        return xs

    @staticmethod
    def posarg(a):
        """the positional / key argument in the form the case asks for"""
        v = a[1]
        form = a[2] if len(a) > 2 else 'int'
        if a[0] != 'p' or form == 'int':
            return v
        import numpy
        if form == 'np64':
            return numpy.int64(v)
        if form == 'np8':
            return numpy.int8(v)

        class Idx(object):
            def __index__(self):
                return v
        return Idx()

    def real_apply(self, op):
        L = self.lst()
        k = op[0]
        try:
            if k == 'append':
                L.append(self.obj(op[1]))
            elif k == 'extend':
                L.extend(self.iterable(op))
            elif k in ('iadd', 'imul'):
                arg = self.iterable(op) if k == 'iadd' else op[1]
                if self.doc is None:
                    if k == 'iadd':
                        self.L += arg
                    else:
                        self.L *= arg
                else:
                    tmp = getattr(self.doc, self.host)
                    if k == 'iadd':
                        tmp += arg
                    else:
                        tmp *= arg
                    if getattr(self.doc, self.host) is not tmp:
                        return 'raw:augmented-assignment-rebinds'
                    distinct = len(set(o.id for o in list.__iter__(tmp))) == len(tmp)     # re-indexing picks the last carrier of an id: only then is it the same index
                    if distinct and (len(op) > 2 and op[2] in ('tuple', 'iter') or k == 'imul' and op[1] % 2 == 0):
                        # the statement `doc.lights += x` also assigns the result back through the attribute
                        setattr(self.doc, self.host, tmp)
                        self.disturb(tmp)
            elif k == 'selfassign':
                if self.doc is not None and len(set(o.id for o in list.__iter__(getattr(self.doc, self.host)))) == len(getattr(self.doc, self.host)):
                    cur = getattr(self.doc, self.host)
                    data = {'same': cur, 'gen': (o for o in cur), 'listcopy': list(cur), 'filter-all': filter(lambda o: True, cur)}[op[1]]
                    setattr(self.doc, self.host, data)
                    self.disturb(cur)
            elif k == 'badassign':
                if self.doc is not None:
                    try:
                        setattr(self.doc, self.host, op[1])
                        return 'raw:assignment-of-%r-accepted' % (op[1],)
                    except TypeError:
                        pass            # refused, and (the oracle checks) nothing was changed
            elif k == 'replace':
                xs = self.iterable(op)
                if self.doc is None:
                    from collada.util import IndexedList
                    self.L = IndexedList(xs, ('id',))
                else:
                    setattr(self.doc, self.host, xs)
            elif k == 'insert':
                L.insert(self.posarg(op[1]), self.obj(op[2]))
            elif k == 'setitem':
                L[self.posarg(op[1])] = self.obj(op[2])
            elif k == 'setslice':
                L[slice(op[1], op[2])] = [self.obj(o) for o in op[3]]
            elif k == 'delitem':
                del L[self.posarg(op[1])]
            elif k == 'delslice':
                del L[slice(op[1], op[2])]
            elif k == 'pop':
                r = L.pop() if op[1] is None else L.pop(self.posarg(op[1]))
                return 'val:%d' % r.uid
            elif k == 'removeobj':
                L.remove(self.obj(op[1]))
            elif k == 'removekey':
                L.remove(op[1])
            elif k == 'clear':
                L.clear()
            else:
                raise AssertionError(op)
            return 'ok'
        except (IndexError, KeyError, ValueError) as e:
            return 'fail:' + type(e).__name__
        except AssertionError:
            raise
        except Exception as e:
            return 'raw:' + type(e).__name__

    def disturb(self, old):
        """`old` is the list object the library was assigned FROM (the attribute wraps what it is given in a list of its own): the caller
        may go on using it — here: an element under an id the library uses is added, the first one is taken out — without the library noticing"""
        if old is getattr(self.doc, self.host):
            return
        n = len(old)
        old.append(O(9000 + n, IDS[n % 4]))
        if n:
            del old[0]

    def apply(self, op):
        exp = self.shadow_apply(op)
        out = self.real_apply(op)
        if exp != out:
            return '%s!=plain-list:%s' % (out, exp)
        return out

    def oracle(self):
        """coherence of the real object: returns None or a description of what disagrees"""
        L = self.lst()
        items = list(list.__iter__(L))
        if len(items) != len(self.shadow) or any(x is not y for x, y in zip(items, self.shadow)):
            return 'positional behaviour differs from a plain list: %s vs %s' % (items, self.shadow)
        if len(L) != len(items):
            return 'len() disagrees'
        for k in PROBES:
            carriers = [o for o in items if o.id == k]
            try:
                member = k in L
                got = L.get(k)
                try:
                    byid = L[k]
                except KeyError:
                    byid = None
            except Exception as e:
                return 'query raised %s for id %r' % (type(e).__name__, k)
            if member != bool(carriers):
                return 'membership of id %r is %s but list %s' % (k, member, items)
            if carriers:
                if got is None or byid is None:
                    return 'id %r carried by %s but lookup finds nothing' % (k, carriers)
                if got is not byid:
                    return 'get(%r) and [%r] disagree' % (k, k)
                if not any(got is c for c in carriers):
                    return 'lookup of id %r returns %r which is not an element carrying it (%s)' % (k, got, items)
            else:
                if got is not None or byid is not None:
                    return 'id %r carried by nothing but lookup returns %r' % (k, got if got is not None else byid)
        for i, o in enumerate(items):
            if L[i] is not o or L[i - len(items)] is not o:
                return 'positional lookup differs at %d' % i
        # membership of ELEMENTS is that of a plain list (also for an element whose id another element carries too)
        for uid, o in self.objs.items():
            if (o in L) != any(x is o for x in items) and not any(x.id == o.id for x in items if x is not o):
                return 'membership of element %s is %s but list %s' % (o, o in L, items)
            if any(x is o for x in items) and not (o in L):
                return 'element %s is in the list %s but `in` says it is not' % (o, items)
        return None


def run_impl(case, expected=None):
    """execute a case on the real code. Returns (answers, first oracle failure or None)"""
    host, init, ops = case
    impl = Impl(host, init)
    answers = ['ok ' + impl.state()]
    bad = impl.oracle()
    if bad:
        return answers, (0, 'construct', bad)
    for n, op in enumerate(ops):
        before = impl.state()
        out = impl.apply(op)
        answers.append(out + ' ' + impl.state())
        if out.startswith('raw:') or '!=' in out:
            return answers, (n + 1, op[0], 'operation %s ended with %s' % (op_line(op), out))
        if out.startswith('fail:') and impl.state() != before:
            return answers, (n + 1, op[0], 'failed operation %s changed the list or its index' % op_line(op))
        bad = impl.oracle()
        if bad:
            return answers, (n + 1, op[0], 'after %s: %s' % (op_line(op), bad))
    return answers, None


def shrink(case, pred):
    host, init, ops = case
    changed = True
    while changed:
        changed = False
        for i in range(len(ops) - 1, -1, -1):
            cand = (host, init, ops[:i] + ops[i + 1:])
            if pred(cand):
                ops = cand[2]
                changed = True
        for i in range(len(init) - 1, -1, -1):
            cand = (host, init[:i] + init[i + 1:], ops)
            if pred(cand):
                init = cand[1]
                changed = True
    return (host, init, ops)


def run(ctx):
    ctx.rule = ('random operation sequences (all mutators, integer / negative / id / object / slice argument '
                'forms, ids from a pool of 4 so that they collide, same object inserted repeatedly, plain '
                'IndexedList and the ten Collada library attributes); a case counts as non-trivial when at '
                'least one operation succeeded and the sequence used a by-id argument or held two elements with '
                'one id; distinct = distinct (host, initial list, op sequence)')
    ncases = ctx.n(2500, 60000)
    maxops = 30 if not ctx.thorough else 60
    cases = [gen_sequence(ctx.rng, maxops if i % 10 else 200 if ctx.thorough else maxops) for i in range(ncases)]
    lines = []
    for c in cases:
        lines.extend(lines_of(c))
    model = ctx.driver('C14', lines) if ctx.lean_ok else None
    pos = 0
    reported = set()
    for c in cases:
        nlines = 1 + len(c[2])
        answers, bad = run_impl(c)
        okops = sum(1 for a in answers[1:] if not a.startswith('fail'))
        usekey = any((len(op) > 1 and isinstance(op[1], tuple) and op[1][0] == 'k') or op[0] == 'removekey' for op in c[2])
        uid2id = dict(c[1])
        for op in c[2]:
            for x in op[1:]:
                if isinstance(x, tuple) and len(x) == 2 and isinstance(x[0], int):
                    uid2id[x[0]] = x[1]
                elif isinstance(x, list):
                    uid2id.update(dict(x))

        def has_dup(a):
            uids = set(u for u in a.split('items=')[1].split(' ')[0].split(',') if u)
            ids = [uid2id[int(u)] for u in uids]
            return len(set(ids)) < len(ids)
        dup = any(has_dup(a) for a in answers)
        ctx.case(dict(host=c[0], lines=lines_of(c)), nontrivial=okops > 0 and (usekey or dup))
        for op, a in zip(c[2], answers[1:]):
            ctx.count('op:' + op[0])
            ctx.count('outcome:' + a.split(' ')[0].split(':')[0] + (':' + a.split(' ')[0].split(':')[1] if a.startswith('fail') else ''))
        ctx.count('host:' + ('plain' if c[0] == 'plain' else 'library'))
        if bad:
            sig = 'il:%s:%s' % (bad[1], 'oracle')
            if sig not in reported:
                reported.add(sig)
                small = shrink(c, lambda cc: run_impl(cc)[1] is not None)
                _, b2 = run_impl(small)
                ctx.violation('il:%s' % b2[1], b2[2], dict(kind='oracle', case=small, lines=lines_of(small)))
        elif model is not None:
            want = model[pos:pos + nlines]
            if want != answers:
                i = next(j for j in range(nlines) if j >= len(answers) or want[j] != answers[j])
                opk = 'construct' if i == 0 else c[2][i - 1][0]
                sig = 'corr:il:%s' % opk
                if sig not in reported:
                    reported.add(sig)
                    ctx.violation(sig, 'correspondence Pyc.IL.step <-> collada.util.IndexedList broke at %r: model %r, implementation %r; '
                                  'the coherence oracle found no failing input on this case (theorems of Pyc/Props/C14.lean no longer '
                                  'describe the code)' % (lines_of(c)[i], want[i], answers[i] if i < len(answers) else None),
                                  dict(kind='correspondence', case=c, lines=lines_of(c), model=want, impl=answers), found_input=False)
        pos += nlines
    ctx.assumptions.append('object identity is modelled by a uid; Python dict and list semantics are modelled (Pyc/Basic/PyList.lean)')


def replay(ctx, rep):
    case = rep['case']
    case = (case[0], [tuple(o) for o in case[1]], [_detuple(op) for op in case[2]])
    _, bad = run_impl(case)
    if bad:
        print('  ' + bad[2])
    return bad is not None


def _detuple(op):
    out = []
    for x in op:
        if isinstance(x, list):
            if x and isinstance(x[0], list):
                out.append([tuple(y) for y in x])
            elif len(x) in (2, 3) and x[0] in ('p', 'k'):
                out.append(tuple(x))
            elif len(x) == 2 and isinstance(x[0], int) and isinstance(x[1], str):
                out.append(tuple(x))
            else:
                out.append([tuple(y) for y in x])
        else:
            out.append(x)
    return tuple(out)
