"""C08, document-level containment: documents whose libraries refer to each other by id (image <- effect <- material,
geometry <- controller, lights, cameras), with some objects damaged and some references dangling.
 * oracle (direct, on the real loader): with DaeError ignored the loaded objects are exactly the good ones —
   undamaged and, transitively, referring only to good objects; the recorded errors are one per object that is not;
 * correspondence: Pyc.DocLoad.loadDoc (lean/drv/C08b.lean) gives the same loaded ids in the same order, the same error
   classes in the same order and, for partial masks, the same escaping class."""
import io
import random

NS = 'http://www.collada.org/2005/11/COLLADASchema'
LIBS = ['images', 'effects', 'materials', 'geometries', 'controllers', 'lights', 'cameras']
ELEM = {'images': 'library_images', 'effects': 'library_effects', 'materials': 'library_materials', 'geometries': 'library_geometries',
        'controllers': 'library_controllers', 'lights': 'library_lights', 'cameras': 'library_cameras'}
DAMAGE = {'images': ['noinit'], 'effects': ['noprofile', 'badshader', 'badfloat', 'notechnique'], 'materials': ['noinst', 'nourl'],
          'geometries': ['badfloat', 'nosource', 'badindex'], 'controllers': ['badweights', 'nojoints', 'badbind'], 'lights': ['notech', 'badcolor'],
          'cameras': ['nooptics', 'badfov']}
REFLIB = {'effects': 'images', 'materials': 'effects', 'controllers': 'geometries'}


def item_xml(lib, it):
    i, dmg, refs = it['id'], it['damage'], it['refs']
    if lib == 'images':
        return '<image id="%s">%s</image>' % (i, '' if dmg == 'noinit' else '<init_from>%s.png</init_from>' % i)
    if lib == 'effects':
        params = ''.join('<newparam sid="%s-s%d"><surface type="2D"><init_from>%s</init_from></surface></newparam>'
                         '<newparam sid="%s-p%d"><sampler2D><source>%s-s%d</source></sampler2D></newparam>' % (i, k, r, i, k, i, k)
                         for k, r in enumerate(refs))
        diffuse = '<texture texture="%s-p0" texcoord="UV"/>' % i if refs else '<color>0.5 0.25 1 1</color>'
        shin = 'x' if dmg == 'badfloat' else '2'
        shader = 'weird' if dmg == 'badshader' else 'phong'
        tech = '' if dmg == 'notechnique' else ('<technique sid="common"><%s><diffuse>%s</diffuse><shininess><float>%s</float></shininess></%s></technique>'
                                                % (shader, diffuse, shin, shader))
        if dmg == 'noprofile':
            return '<effect id="%s"/>' % i
        return '<effect id="%s"><profile_COMMON>%s%s</profile_COMMON></effect>' % (i, params, tech)
    if lib == 'materials':
        if dmg == 'noinst':
            return '<material id="%s"/>' % i
        return '<material id="%s"><instance_effect %s/></material>' % (i, '' if dmg == 'nourl' else 'url="#%s"' % refs[0])
    if lib == 'geometries':
        fl = '0 0 0 1 0 0 0 1 x' if dmg == 'badfloat' else '0 0 0 1 0 0 0 1 0'
        src = '' if dmg == 'nosource' else ('<source id="%s-pos"><float_array id="%s-pos-a" count="9">%s</float_array><technique_common>'
                                            '<accessor source="#%s-pos-a" count="3" stride="3"><param name="X" type="float"/><param name="Y" type="float"/>'
                                            '<param name="Z" type="float"/></accessor></technique_common></source>' % (i, i, fl, i))
        p = '0 1 q' if dmg == 'badindex' else '0 1 2'
        return ('<geometry id="%s"><mesh>%s<vertices id="%s-v"><input semantic="POSITION" source="#%s-pos"/></vertices>'
                '<triangles count="1"><input semantic="VERTEX" source="#%s-v" offset="0"/><p>%s</p></triangles></mesh></geometry>' % (i, src, i, i, i, p))
    if lib == 'controllers':
        ws = '1 x' if dmg == 'badweights' else '1 0.5'
        jn = '' if dmg == 'nojoints' else '<joints><input semantic="JOINT" source="#%s-j"/><input semantic="INV_BIND_MATRIX" source="#%s-m"/></joints>' % (i, i)
        return ('<controller id="%s"><skin source="#%s"><bind_shape_matrix>%s 0 0 0 0 1 0 0 0 0 1 0 0 0 0 1</bind_shape_matrix>'
                '<source id="%s-j"><Name_array id="%s-ja" count="1">b</Name_array><technique_common><accessor source="#%s-ja" count="1" stride="1">'
                '<param name="JOINT" type="Name"/></accessor></technique_common></source>'
                '<source id="%s-m"><float_array id="%s-ma" count="16">1 0 0 0 0 1 0 0 0 0 1 0 0 0 0 1</float_array><technique_common>'
                '<accessor source="#%s-ma" count="1" stride="16"><param name="TRANSFORM" type="float4x4"/></accessor></technique_common></source>'
                '<source id="%s-w"><float_array id="%s-wa" count="2">%s</float_array><technique_common><accessor source="#%s-wa" count="2" stride="1">'
                '<param name="WEIGHT" type="float"/></accessor></technique_common></source>%s'
                '<vertex_weights count="3"><input semantic="JOINT" source="#%s-j" offset="0"/><input semantic="WEIGHT" source="#%s-w" offset="1"/>'
                '<vcount>1 1 1</vcount><v>0 0 0 1 0 0</v></vertex_weights></skin></controller>'
                % (i, refs[0], 'one' if dmg == 'badbind' else '1', i, i, i, i, i, i, i, i, ws, i, jn, i, i))
    if lib == 'lights':
        if dmg == 'notech':
            return '<light id="%s"/>' % i
        return '<light id="%s"><technique_common><ambient><color>%s</color></ambient></technique_common></light>' % (i, '1 x 1' if dmg == 'badcolor' else '1 1 1')
    if lib == 'cameras':
        if dmg == 'nooptics':
            return '<camera id="%s"/>' % i
        return ('<camera id="%s"><optics><technique_common><perspective><xfov>%s</xfov><znear>1</znear><zfar>10</zfar></perspective>'
                '</technique_common></optics></camera>' % (i, 'wide' if dmg == 'badfov' else '45'))
    raise KeyError(lib)


def doc_xml(case, liborder=None):
    body = ''
    for lib in (liborder or case['liborder']):
        items = case['libs'].get(lib, [])
        if items:
            body += '<%s>%s</%s>' % (ELEM[lib], ''.join(item_xml(lib, it) for it in items), ELEM[lib])
    return ('<?xml version="1.0" encoding="utf-8"?>\n<COLLADA xmlns="%s" version="1.4.1"><asset><up_axis>Y_UP</up_axis></asset>%s</COLLADA>' % (NS, body)).encode()


_CLASS = {}


def damage_class(lib, dmg):
    """what the loader itself raises for this damage on an otherwise sound document: a DaeError class name, 'ok' (not a fault after all) or 'raw:…'"""
    if (lib, dmg) not in _CLASS:
        from props import c08
        libs = dict((l, [dict(id=l[:3] + '0', damage=None, refs=[REFLIB[l][:3] + '0'] if l in ('materials', 'controllers') else [])]) for l in LIBS)
        libs[lib][0]['damage'] = dmg
        keep = [lib] + ([REFLIB[lib]] if lib in REFLIB else [])
        if lib == 'materials':
            keep.append('images')
        out, _ = c08.load(doc_xml(dict(libs=dict((l, libs[l]) for l in keep), liborder=LIBS)))
        _CLASS[(lib, dmg)] = out
    return _CLASS[(lib, dmg)]


_LATE = {}


def damage_late(lib, dmg):
    """does the loader look the references up before it meets this damage? (decided by the loader itself: one object with the damage and a dangling reference)"""
    if lib not in REFLIB:
        return False
    if (lib, dmg) not in _LATE:
        from props import c08
        libs = {lib: [dict(id='x0', damage=dmg, refs=['ghost'])], REFLIB[lib]: []}
        out, _ = c08.load(doc_xml(dict(libs=libs, liborder=LIBS)))
        _LATE[(lib, dmg)] = out == 'DaeBrokenRefError' and damage_class(lib, dmg) != 'DaeBrokenRefError'
    return _LATE[(lib, dmg)]


def gen_case(r):
    libs = {}
    counter = [0]
    for lib in LIBS:
        n = r.choice([0, 1, 2, 2, 3, 4]) if lib not in ('images', 'geometries') else r.choice([1, 2, 3, 4])
        items = []
        for _ in range(n):
            counter[0] += 1
            it = dict(id='%s%d' % (lib[:3], counter[0]), damage=None, refs=[])
            if r.random() < 0.3:
                it['damage'] = r.choice(DAMAGE[lib])
            if lib in REFLIB:
                pool = [x['id'] for x in libs.get(REFLIB[lib], [])] + ['ghost%d' % counter[0]]
                if lib == 'effects':
                    it['refs'] = [r.choice(pool) for _ in range(r.choice([0, 0, 1, 1, 2]))]
                else:
                    it['refs'] = [r.choice(pool)]
            items.append(it)
        libs[lib] = items
    order = list(LIBS)
    r.shuffle(order)            # the order of the library elements in the file is free
    return dict(libs=libs, liborder=order)


def effective(case):
    """per item: the class its own damage raises or None; refs that matter (a damaged element never gets to look its references up)"""
    out = {}
    for lib, items in case['libs'].items():
        for it in items:
            c = damage_class(lib, it['damage']) if it['damage'] else 'ok'
            out[(lib, it['id'])] = None if c == 'ok' else c
    return out


def good_set(case):
    eff = effective(case)
    ids = dict(((lib, it['id']), it) for lib, items in case['libs'].items() for it in items)
    memo = {}

    def good(k):
        if k not in memo:
            lib, i = k
            memo[k] = k in ids and eff[k] is None and all(good((REFLIB[lib], x)) for x in ids[k]['refs'])
        return memo[k]
    return set(k for k in ids if good(k)), eff


def model_line(case, mask):
    eff = effective(case)
    segs = []
    for lib in case['liborder']:
        items = case['libs'].get(lib, [])
        if items:
            segs.append('%s %s' % (lib, ' '.join('%s/%s%s/%s' % (it['id'], eff[(lib, it['id'])] or '-',
                                                                 '@late' if eff[(lib, it['id'])] and damage_late(lib, it['damage']) else '', ','.join('%s:%s' % (REFLIB[lib], x) for x in it['refs']))
                                                 for it in items)))
    return 'doc %s ; %s' % (' '.join(mask), ' ; '.join(segs))


def real(case, mask):
    from props import c08
    out, d = c08.load(doc_xml(case), ignore=[c08.cls(m) for m in mask])
    if out != 'ok':
        return 'raise:' + out, None
    env = ['%s:%s' % (lib, o.id) for lib in ['images', 'effects', 'materials', 'geometries', 'controllers', 'lights', 'cameras'] for o in getattr(d, lib)]
    return 'ok env=%s errors=%s' % (','.join(env), ','.join(c08.kname(e) for e in d.errors)), d


MASKS = [['DaeError'], [], ['DaeBrokenRefError'], ['DaeIncompleteError', 'DaeMalformedError'], ['DaeUnsupportedError', 'DaeBrokenRefError', 'DaeMalformedError']]


def check_case(case):
    """direct oracle; returns (signature, text) or None"""
    goods, eff = good_set(case)
    if any(c and c.startswith('raw:') for c in eff.values()):
        return None           # a raw exception is the business of the fault oracle
    res, d = real(case, ['DaeError'])
    if d is None:
        return ('docload:not-ignorable', 'with DaeError ignored the load still fails: %s' % res)
    loaded = set((lib, o.id) for lib in LIBS for o in getattr(d, lib))
    if loaded - goods:
        k = sorted(loaded - goods)[0]
        return ('docload:loaded-not-good:' + k[0], '%s %r is loaded although it is damaged or refers to an object that is not loaded' % k)
    if goods - loaded:
        k = sorted(goods - loaded)[0]
        return ('docload:good-not-loaded:' + k[0], '%s %r is undamaged and everything it refers to is loaded, yet it is missing after the load' % k)
    nbad = len(eff) - len(goods)
    if len(d.errors) != nbad:
        return ('docload:error-count', '%d objects are not loaded but %d errors are recorded' % (nbad, len(d.errors)))
    return None
