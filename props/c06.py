"""C06 — the written file says what the model says.

Correspondence (ties Pyc/Model/Emit.lean to the code): collada.util._correctValInNode on random child lists,
the VERTEX redirection of Geometry.save on generated geometries, the shader parameter loop of Effect.save on
loaded effects with unknown extra children — each vs the Lean functions correctVal / redirect / emitProps.
`Effect.supported` is regenerated from the source on every run (translators/effect_tables.py).
Direct oracle: an independent etree-only reader (vlib/xmlread.py, never pycollada's loader) applied to the
written bytes must give the public snapshot of the model, for constructed models and edit histories.
"""
import io
import random
import xml.etree.ElementTree as ET

from vlib import core, snap, modelgen, editgen, xmlread
from props import c02, c03

PID = 'C06'
TRANSLATORS = ['effect_tables']
LEAN_MODULES = ['Pyc.Model.Emit']
META = dict(
    level_text=('Proof: Pyc/Props/C06.lean proves the lens laws of the optional-child writer (correctVal_get, correctVal_frame), that the VERTEX '
                'redirection of Geometry.save is inverted by a reader following the <vertices> indirection and touches no other input '
                '(resolve_redirect, redirect_vertex_targets_vertices, redirect_others_unchanged, redirect_idem), and a closed form of the shader '
                'parameter loop of Effect.save (emitProps_eq: unknown children kept in front, one element per valued property in the order of '
                'Effect.supported, which supported_ok shows - for the table read from the source on this run - to be duplicate-free and in schema order); '
                'with the C02 reconciliation theorem this gives "nothing missing, nothing unaccounted for" at the element level.'),
    level_note=('Trusted: Lean kernel + standard axioms; Pyc/Model/Emit.lean; translators/effect_tables.py; the independent reader vlib/xmlread.py '
                '(written from the COLLADA specification) as the oracle of what a file says; ElementTree serialiser; numeric comparison modulo the seven digits written. '
                'Object kinds without a Lean writer model (lights, cameras, images, materials, asset) are covered by the reader oracle only.'),
    technique='Lean 4 lens/inverse/closed-form theorems for the value-level writers + kernel correspondence with util._correctValInNode, Geometry.save, Effect.save + independent-reader oracle on written bytes',
)
TAGS = ['color', 'zfar', 'constant_attenuation', 'author', 'comments', 'x']


def cv_cases(rng, n):
    out = []
    for _ in range(n):
        kids = [(rng.choice(TAGS), str(rng.randint(0, 9))) for _ in range(rng.randint(0, 5))]
        # optional children occur at most once in schema-valid input; also feed a few duplicates
        if rng.random() < 0.8:
            seen, uniq = set(), []
            for t, v in kids:
                if t not in seen:
                    seen.add(t)
                    uniq.append((t, v))
            kids = uniq
        order = None
        if rng.random() < 0.6:
            order = list(TAGS)
            rng.shuffle(order)
            order = order[:rng.randint(2, len(order))]
        out.append((rng.choice(TAGS), rng.choice(['_', '5', '77', 0.0, 0, False]), kids, order))
    return out


def cv_line(c):
    later = c[3][c[3].index(c[0]) + 1:] if c[3] and c[0] in c[3] else []
    return 'cv %s %s %s ; %s' % (c[0], c[1], ' '.join(later), ' '.join('%s:%s' % kv for kv in c[2]))


def cv_impl(c):
    from collada.util import _correctValInNode
    from collada.common import tag, E
    outer = E.outer()
    for t, v in c[2]:
        outer.append(E(t, v))
    _correctValInNode(outer, c[0], None if (isinstance(c[1], str) and c[1] == '_') else c[1], c[3])
    return ' '.join('%s:%s' % (ch.tag.split('}')[-1], ch.text) for ch in outer)


def redir_cases(seed):
    """run Geometry.save on the geometries of a generated document: (line, actual) per primitive"""
    from collada.common import tag
    doc = modelgen.build(seed, dict(need_geom=True, geoms=3, prims=4))
    out = []
    for g in doc.geometries:
        before = [[(i.get('semantic'), i.get('source')[1:]) for i in p.xmlnode.findall(tag('input'))] for p in g.primitives]
        g.save()
        vnode = g.xmlnode.find(tag('mesh')).find(tag('vertices'))
        vid = vnode.get('id')
        vref = [i for i in vnode.findall(tag('input')) if i.get('semantic') == 'POSITION'][0].get('source')[1:]
        for p, b in zip(g.primitives, before):
            after = ' '.join('%s:%s' % (i.get('semantic'), i.get('source')[1:]) for i in p.xmlnode.findall(tag('input')))
            out.append(('redir %s %s ; %s' % (vid, vref, ' '.join('%s:%s' % x for x in b)), after))
    return out


def emit_cases(seed):
    """Effect.save on loaded effects whose shader element also holds children pycollada does not know"""
    import collada
    from collada import material
    from collada.common import tag, E
    from translators import effect_tables
    supported = effect_tables.extract(core.REPO)[0]
    r = random.Random('c06e/%s' % seed)
    doc = modelgen.build(seed, dict(effects=3))
    if not doc.effects:
        return []
    b = io.BytesIO()
    doc.write(b)
    doc = collada.Collada(io.BytesIO(b.getvalue()))
    out = []
    for e in doc.effects:
        shad = e.xmlnode.find(tag('profile_COMMON')).find(tag('technique')).find(tag(e.shadingtype))
        if r.random() < 0.5:
            shad.insert(r.randint(0, len(shad)), E.custom_param())
        # edit some values
        for prop in r.sample(supported, 3):
            cur = getattr(e, prop)
            if isinstance(cur, material.Map):
                continue
            if prop in ('shininess', 'reflectivity', 'transparency', 'index_of_refraction'):
                setattr(e, prop, r.choice([None, 0.5]))
            else:
                setattr(e, prop, r.choice([None, (0.5, 0.5, 0.5, 1.0)]))
        kids = ' '.join('%s:o' % ch.tag.split('}')[-1] for ch in shad)
        vals = ' '.join('%s:%s' % (p, '_' if getattr(e, p) is None else 'n') for p in supported)
        e.save()
        shad2 = e.xmlnode.find(tag('profile_COMMON')).find(tag('technique')).find(tag(e.shadingtype))
        known = set(supported) | {'custom_param'}
        after = [ch.tag.split('}')[-1] for ch in shad2]
        out.append(('emit %s ; %s ; %s' % (' '.join(supported), vals, kids), ' '.join(after)))
    return out


VALUE_KINDS = ['attr', 'attr', 'attr', 'attr', 'rename', 'save', 'contributors', 'matinputs', 'matinputs', 'matbind', 'srcdata', 'srcdata', 'save']


def reader_oracle(kind, seed, nops, kinds=None):
    """returns None or (sig, what)"""
    doc, gen = c02.base_doc(kind, seed, dict(names=True))
    hist = []
    for i in range(nops):
        try:
            d = editgen.apply(doc, seed, i, gen, kinds)
        except Exception as e:
            core.note_skip('c06:edit', e)
            return None
        if d:
            hist.append(d)
    return reader_compare(doc, hist)


def derived_oracle(kind, seed):
    """primitives derived from other primitives (Polylist/Polygons.triangleset()) put into the geometry in place of, or next to, their origin"""
    r = random.Random('c06d/%s' % seed)
    doc, gen = c02.base_doc(kind, seed)
    hist = []
    for g in doc.geometries:
        for i, p in enumerate(list(g.primitives)):
            if type(p).__name__ in ('Polylist', 'Polygons') and len(p) and min(int(v) for v in p.vcounts) >= 3 and r.random() < 0.7:
                t = p.triangleset()
                if r.random() < 0.6:
                    g.primitives[g.primitives.index(p)] = t
                    hist.append('%s[%d]:=triangleset' % (g.id, i))
                else:
                    g.primitives.append(t)
                    hist.append('%s+=triangleset[%d]' % (g.id, i))
    if not hist:
        return 'skip'
    return reader_compare(doc, hist)


def root_oracle(seed):
    from props import c03
    r = random.Random('c06root/%s' % seed)
    hist = []

    def empty_some(doc):
        for lib in ('lights', 'cameras', 'images', 'effects', 'geometries', 'nodes'):
            if len(getattr(doc, lib)) and r.random() < 0.4:
                del getattr(doc, lib)[:]
                hist.append('clear:' + lib)
    try:
        doc, kids = c03.root_case(r, after_load=empty_some, want_doc=True)
    except Exception as e:
        core.note_skip('c06:root-doc', e)
        return None
    return reader_compare(doc, ['root: ' + ' '.join(kids)] + hist)


def reader_compare(doc, hist):
    expected = snap.snapshot(doc, norm7=True, errors=False, derive_matrix=True)
    b = io.BytesIO()
    try:
        doc.write(b)
    except Exception as e:
        return ('write:' + type(e).__name__, 'write raised %s: %s' % (type(e).__name__, str(e)[:160]))
    try:
        got = xmlread.read(b.getvalue())
    except Exception as e:
        return ('unreadable:' + type(e).__name__, 'independent reader cannot read the written file: %s %s (history %s)' % (type(e).__name__, str(e)[:120], hist))
    keys = [k for k in expected if k in got and k not in ('controllers',)]
    a = {k: expected[k] for k in keys}
    bb = {k: got[k] for k in keys}
    for s in (a, bb):
        for g in s['geometries']:
            g.pop('vertices', None)
        c03._drop_matrices(s)     # derived from the transform lists, whose meaning is C13's subject
    df = snap.diff(a, bb)
    if df:
        import re
        where = re.sub(r'\[\d+\]', '[]', df[0].split(':')[0])
        return ('file-differs:' + where, 'independent reading of the written file differs from the model: %s (history %s)' % ('; '.join(df[:3]), hist))
    # VERTEX inputs must point at a <vertices> element of the same mesh
    root = ET.fromstring(b.getvalue())
    ns = root.tag.split('}')[0] + '}'
    for mesh in root.iter(ns + 'mesh'):
        vids = set(v.get('id') for v in mesh.findall(ns + 'vertices'))
        for prim in mesh:
            for inp in prim.findall(ns + 'input') if prim.tag != ns + 'vertices' else []:
                if inp.get('semantic') == 'VERTEX' and inp.get('source')[1:] not in vids:
                    return ('vertex-not-vertices', 'a VERTEX input refers to %s which is not a <vertices> element' % inp.get('source'))
    return None


def run(ctx):
    ctx.rule = ('kernel cases: random optional-child lists (unique and duplicated tags) for _correctValInNode; every primitive of generated '
                'geometries through Geometry.save; loaded effects with edited values and an unknown child through Effect.save; '
                'reader oracle: constructed, write-reloaded and corpus documents after 0-10 random edits, written and read back by the independent reader; '
                'non-trivial = document with at least one geometry or effect; distinct by (base, seed, edits)')
    reported = set()
    cases = cv_cases(ctx.rng, ctx.n(800, 20000))
    lines = [cv_line(c) for c in cases]
    actual = [cv_impl(c) for c in cases]
    names = ['correctVal'] * len(lines)
    for i in range(ctx.n(40, 1000)):
        for l, a in redir_cases(ctx.rng.randrange(10 ** 9)):
            lines.append(l); actual.append(a); names.append('redirect')
    for i in range(ctx.n(40, 1000)):
        for l, a in emit_cases(ctx.rng.randrange(10 ** 9)):
            lines.append(l); actual.append(a); names.append('emitProps')
    # _setAttribute (optional attributes: id, name, sid, symbol, texcoord, ...) against Pyc.Emit.setAttr
    import xml.etree.ElementTree as _ET
    from collada.util import _setAttribute
    pool = ['id', 'name', 'sid', 'symbol', 'texcoord', 'url']
    for i in range(ctx.n(300, 6000)):
        attrs = [(k, ctx.rng.choice(['a', 'b', 'x1'])) for k in ctx.rng.sample(pool, ctx.rng.randint(0, 4))]
        name = ctx.rng.choice(pool)
        value = ctx.rng.choice([None, None, 'v', 'w2'])
        el = _ET.Element('e')
        for k, v in attrs:
            el.set(k, v)
        _setAttribute(el, name, value)
        lines.append('attr %s %s ; %s' % (name, '_' if value is None else value, ' '.join('%s:%s' % kv for kv in attrs)))
        actual.append(' '.join('%s:%s' % kv for kv in el.attrib.items()))
        names.append('setAttr')
    for nm in names:
        ctx.count('kernel:' + nm)
    if ctx.lean_ok:
        model = ctx.driver('C06', lines)
        for l, a, m, nm in zip(lines, actual, model, names):
            if nm == 'emitProps':
                m = ' '.join(w.split(':')[0] for w in m.split())     # only the element order is observable here
            if a != m and ('corr:' + nm) not in reported:
                reported.add('corr:' + nm)
                ctx.violation('corr:' + nm, 'implementation and Pyc.Emit.%s disagree on %r: model %r, implementation %r' % (nm, l, m, a),
                              dict(kind='kernel', name=nm, line=l, model=m, impl=a), found_input=False)
    bases = ['constructed', 'reloaded', 'docgen', 'docgen', 'docgen'] + c02.CORPUS
    for i in range(ctx.n(150, 5000)):
        kind = bases[i % len(bases)] if i % 3 == 2 else ('constructed' if i % 3 == 0 else 'reloaded')
        seed = ctx.rng.randrange(10 ** 9)
        nops = ctx.rng.choice([0, 0, 2, 5, 10])
        ctx.case(dict(base=kind, seed=seed, nops=nops))
        ctx.count('reader:' + ('corpus' if kind not in ('constructed', 'reloaded') else kind))
        res = reader_oracle(kind, seed, nops)
        if res and res[0] not in reported:
            reported.add(res[0])
            ctx.violation('c06:' + res[0], res[1], dict(kind='reader', base=kind, seed=seed, nops=nops))
    # value-only histories: attributes set to new values (None, zero and other falsy values included), renames, saves in between
    for i in range(ctx.n(250, 6000)):
        kind = 'constructed' if i % 2 == 0 else 'reloaded'
        seed = ctx.rng.randrange(10 ** 9)
        nops = ctx.rng.choice([1, 2, 4, 8])
        ctx.case(dict(base=kind, seed=seed, nops=nops, values=True))
        ctx.count('reader:value-histories')
        res = reader_oracle(kind, seed, nops, VALUE_KINDS)
        if res and res[0] not in reported:
            reported.add(res[0])
            ctx.violation('c06:' + res[0], res[1], dict(kind='reader', base=kind, seed=seed, nops=nops, kinds=VALUE_KINDS))
    # documents whose root holds several library elements of one kind (and unmanaged ones, extras ...), with some lists emptied after loading
    from props import c03
    for i in range(ctx.n(120, 3000)):
        seed = ctx.rng.randrange(10 ** 9)
        ctx.case(dict(base='root', seed=seed))
        ctx.count('reader:roots')
        res = root_oracle(seed)
        if res and res[0] not in reported:
            reported.add(res[0])
            ctx.violation('c06:' + res[0], res[1], dict(kind='root', seed=seed))
    nd = 0
    for i in range(ctx.n(120, 3000)):
        kind = 'constructed' if i % 2 == 0 else 'reloaded'
        seed = ctx.rng.randrange(10 ** 9)
        res = derived_oracle(kind, seed)
        if res == 'skip':
            continue
        nd += 1
        ctx.case(dict(base=kind, seed=seed, derived=True))
        ctx.count('reader:derived-primitives')
        if res and res[0] not in reported:
            reported.add(res[0])
            ctx.violation('c06:' + res[0], res[1], dict(kind='derived', base=kind, seed=seed))
    # a kernel divergence together with a reader failure is reported through the reader failure
    if any(v['found_input'] for v in ctx.violations):
        ctx.violations[:] = [v for v in ctx.violations if v['found_input']]


def replay(ctx, rep):
    if rep.get('kind') == 'reader':
        res = reader_oracle(rep['base'], rep['seed'], rep['nops'], rep.get('kinds'))
        if res:
            print('  ' + res[1])
        return res is not None
    if rep.get('kind') == 'root':
        res = root_oracle(rep['seed'])
        if res:
            print('  ' + res[1])
        return res is not None
    if rep.get('kind') == 'derived':
        res = derived_oracle(rep['base'], rep['seed'])
        if res and res != 'skip':
            print('  ' + res[1])
        return bool(res) and res != 'skip'
    print('  kernel divergence on %r' % rep.get('line'))
    return False
