"""C15 — loading is independent of the namespace URI.

Proof: Pyc/Props/C15.lean (`load_ns_invariant` for every loader that takes its namespace from the root and otherwise only
looks at the per-document view; `no_hardwired_tag_in_loaders` over the table of load-side functions regenerated from the AST
on every run; `hardwired_not_invariant` as the negative).
Correspondence: the example loader of the model (ids of the geometries the per-document tagger sees) vs the real loader on the
top levels of generated documents, before and after renaming.
Direct oracle: every generated document (all libraries, controllers and animations included, well-formed and damaged, with
foreign-namespace extras) loaded under the 1.4.1 URI, the 1.5 URI and a random URI, as default namespace and with a prefix:
public snapshots and recorded error classes must be equal.
Save side: `Collada.save` wraps the namespace-unaware `_save` in namespace moves; translators/ns_wrap.py reads the moves in source order,
`source_wrapper_is_saveNs` shows they compute `Pyc.Ns.saveNs`, `saveNs_unedited` that an unedited document comes back element by element
(foreign content in the default namespace included, which is what parking is for; `noPark_moves_foreign_content` is the negative), the
correspondence runs `Collada._retagNamespace` against `renameNs` on random trees, and the oracle checks on real documents that a save keeps
the tag of every existing element and creates new elements in the document's namespace.
"""
import io
import random
import re
import xml.etree.ElementTree as ET

from vlib import core, snap, docgen
from props import c19

PID = 'C15'
TRANSLATORS = ['ns_usage', 'ns_wrap']
LEAN_MODULES = ['Pyc.Model.Namespace']
META = dict(
    level_text=('Proof: Pyc/Props/C15.lean proves by structural induction over the element tree that renaming the root namespace to any URI not '
                'already used by a foreign element leaves the view of a per-document tagger unchanged (view_rename), hence every loader that is a '
                'function of that view (load_ns_invariant) - content and recorded errors alike. That the real load-side functions are of this kind is '
                'checked statically on every run (no_hardwired_tag_in_loaders over the AST-derived table of all 62 load-side functions) and dynamically by '
                'loading each generated document under three URIs and two serialisations. '
                'For saving, the statements of Collada.save as read from the source compute saveNs (source_wrapper_is_saveNs), and saveNs returns an unedited document '
                'unchanged whatever foreign content it embeds (saveNs_unedited, rename_roundtrip).'),
    level_note=('Trusted: Lean kernel + standard axioms; translators/ns_usage.py, translators/ns_wrap.py (which functions count as load-side; only direct calls of the module-level tag are seen); '
                'Pyc/Model/Namespace.lean; ElementTree\'s namespace handling. A hard-wired namespace reached through another route than calling tag() would only be '
                'caught by the dynamic comparison.'),
    technique='Lean 4 structural-induction theorems on namespace renaming (load side) and on the namespace wrapper of save, whose steps are read from the source each run + AST-derived table of tag usage + differential loading under several namespace URIs + retag correspondence',
)
URIS = [docgen.NS141, docgen.NS15]


def outcome(data):
    """strict outcome and, with every DaeError ignored, snapshot + recorded error classes"""
    import collada
    from collada.common import DaeError
    try:
        d = collada.Collada(io.BytesIO(data))
        strict = 'ok'
    except Exception as e:
        strict = type(e).__name__
    try:
        d = collada.Collada(io.BytesIO(data), ignore=[DaeError])
        s = snap.snapshot(d)
        # what the recorded errors SAY, with the document's namespace URI (and addresses) blanked: the same text under every URI
        uri = ET.fromstring(data).tag.split('}')[0].lstrip('{')
        s['error_messages'] = [re.sub(r'0x[0-9a-fA-F]+', '0x', str(e).replace(uri, 'NS')) for e in d.errors]
        if s.get('asset') and not any(isinstance(c.tag, str) and c.tag.split('}')[-1] == 'asset' and any(g.tag.split('}')[-1] == 'created' for g in c)
                                      for c in ET.fromstring(data)):
            s['asset']['created'] = s['asset']['modified'] = None     # defaults to the time of loading
    except Exception as e:
        s = dict(raised=type(e).__name__)
    return strict, s


def rename(data, old, new, prefixed):
    """the same document with the COLLADA namespace URI replaced; optionally serialised with a prefix"""
    if not prefixed:
        return data.replace(old.encode(), new.encode())
    root = ET.fromstring(data)
    scratch = 'urn:x-c15-scratch'
    for el in root.iter():
        if isinstance(el.tag, str) and el.tag.startswith('{' + old + '}'):
            el.tag = '{' + scratch + '}' + el.tag[len(old) + 2:]
    out = ET.tostring(root, encoding='utf-8')
    return out.replace(scratch.encode(), new.encode())


def with_bound_materials(data):
    """give every <instance_controller> a <bind_material> (and the document the material it binds)"""
    root = ET.fromstring(data)
    ns = '{%s}' % docgen.NS141
    insts = [e for e in root.iter(ns + 'instance_controller')]
    if not insts:
        return data
    fx = ET.fromstring('<library_effects xmlns="%s"><effect id="c15fx"><profile_COMMON><technique sid="common"><phong><diffuse><color>1 0 0 1</color></diffuse>'
                       '</phong></technique></profile_COMMON></effect></library_effects>' % docgen.NS141)
    mats = ET.fromstring('<library_materials xmlns="%s"><material id="c15mat"><instance_effect url="#c15fx"/></material></library_materials>' % docgen.NS141)
    root.insert(1, fx)
    root.insert(2, mats)
    for i in insts:
        bm = ET.fromstring('<bind_material xmlns="%s"><technique_common><instance_material symbol="sym" target="#c15mat">'
                           '<bind_vertex_input semantic="UV" input_semantic="TEXCOORD" input_set="0"/></instance_material></technique_common></bind_material>' % docgen.NS141)
        i.insert(0, bm)
    return ET.tostring(root)


UNSUPPORTED = b'<linestrips count="1"><input semantic="VERTEX" source="#nowhere" offset="0"/><p>0 1 2</p></linestrips></mesh>'


def unsupported(data):
    """COLLADA elements the library does not support, in the document's own namespace: a primitive kind in a mesh, a transform in a node"""
    data = data.replace(b'</mesh>', UNSUPPORTED, 1)
    return re.sub(rb'(<node(?: [^>]*[^/>])?>)', rb'\1<skew sid="sk">45 1 0 0 0 1 0</skew>', data, count=1)


def make_doc(rng, i):
    """(label, bytes in NS141 default-namespace form, replay info)"""
    if i % 3 == 2:
        seed = rng.randrange(10 ** 9)
        r = random.Random('c15c/%s' % seed)
        c, exp = c19.gen_case(r)
        return 'controller', with_bound_materials(c19.doc_xml(c).replace(c19.NS.encode(), docgen.NS141.encode())), dict(gen='c19', seed=seed)
    seed = rng.randrange(10 ** 9)
    if i % 7 == 3:
        # a document without <asset> below the root (the loader accepts it and supplies default asset information)
        return 'no-asset', docgen.generate(seed, dict(perm=(i % 2 == 0), noasset=True)), dict(gen='docgen', seed=seed, perm=(i % 2 == 0), damaged=False, noasset=True)
    data = docgen.generate(seed, dict(perm=(i % 2 == 0)))
    if i % 5 == 0:
        # damage it: dangling reference / non-numeric token, so that errors get recorded
        data = re.sub(rb'url="#geom', b'url="#missing', data, count=1)
        data = re.sub(rb'<p>\s*(\d+)', b'<p>x\\1', data, count=1)
        return 'damaged', data, dict(gen='docgen', seed=seed, perm=(i % 2 == 0), damaged=True)
    if i % 4 == 1 and b'</mesh>' in data:
        # a COLLADA element the library does not support, in the document's own namespace: reported the same way under every URI
        data = unsupported(data)
        return 'unsupported', data, dict(gen='docgen', seed=seed, perm=(i % 2 == 0), damaged=False, unsupported=True)
    return 'docgen', data, dict(gen='docgen', seed=seed, perm=(i % 2 == 0), damaged=False)


def rebuild(rep):
    if rep['gen'] == 'c19':
        r = random.Random('c15c/%s' % rep['seed'])
        c, exp = c19.gen_case(r)
        return with_bound_materials(c19.doc_xml(c).replace(c19.NS.encode(), docgen.NS141.encode()))
    data = docgen.generate(rep['seed'], dict(perm=rep['perm'], noasset=bool(rep.get('noasset'))))
    if rep.get('damaged'):
        data = re.sub(rb'url="#geom', b'url="#missing', data, count=1)
        data = re.sub(rb'<p>\s*(\d+)', b'<p>x\\1', data, count=1)
    if rep.get('unsupported'):
        data = unsupported(data)
    return data


def compare(data, uri, prefixed):
    base = outcome(data)
    other = outcome(rename(data, docgen.NS141, uri, prefixed))
    if base[0] != other[0]:
        return ('strict-outcome', 'strict load gives %s under the 1.4.1 URI but %s under %s%s' % (base[0], other[0], uri, ' (prefixed)' if prefixed else ''))
    df = snap.diff(base[1], other[1])
    if df:
        where = re.sub(r'\[\d+\]', '[]', df[0].split(':')[0])
        return ('model:' + where, 'loaded model under %s%s differs from the one under the 1.4.1 URI: %s' % (uri, ' (prefixed)' if prefixed else '', '; '.join(df[:3])))
    return None


def tree_line(data, newns):
    """top two levels of the document as driver tokens, and the loader's geometry ids"""
    root = ET.fromstring(data)

    def tok(el, nk):
        ns, name = el.tag[1:].split('}') if el.tag.startswith('{') else ('', el.tag)
        ns = 'ns0' if ns == docgen.NS141 else 'f' + str(abs(hash(ns)) % 1000)
        return '%s|%s|%s|%d' % (ns, name, el.get('id') or '_', nk)
    toks = [tok(root, len(root))]
    for lib in root:
        kids = list(lib) if lib.tag.endswith('}library_geometries') else []
        toks.append(tok(lib, len(kids)))
        for g in kids:
            toks.append(tok(g, 0))
    return 'tree %s ; %s' % (newns, ' '.join(toks))


NSPOOL = ['nsD', 'nsX', 'nsF', 'nsG']


def retag_case(rng):
    """a random element tree over a small pool of namespaces: (tokens, ElementTree root)"""
    toks = []

    def mk(depth):
        ns = rng.choice(NSPOOL)
        el = ET.Element('{%s}e%d' % (ns, len(toks)))
        pos = len(toks)
        toks.append(None)
        nk = rng.randint(0, 3) if depth < 3 else 0
        for _ in range(nk):
            el.append(mk(depth + 1))
        toks[pos] = '%s|%s|_|%d' % (ns, el.tag.split('}')[1], nk)
        return el
    root = mk(0)
    return toks, root


def ns_order(root):
    return ','.join(e.tag[1:].split('}')[0] for e in root.iter())


def save_keeps_namespaces(data, uri):
    """direct oracle: Collada.save leaves every element that was in the document in its namespace (foreign content in the 1.4.1 namespace
    included) and creates new elements in the document's namespace. Returns None or (sig, text)"""
    import collada
    data = rename(data, docgen.NS141, uri, False)
    # foreign content in the 1.4.1 namespace inside this document
    data = data.replace(b'</COLLADA>', ('<extra><technique profile="OLD"><note xmlns="%s">kept<light id="not-a-light"/></note></technique></extra></COLLADA>'
                                        % docgen.NS141).encode(), 1)
    try:
        d = collada.Collada(io.BytesIO(data))
    except Exception:
        return 'skip'
    before = dict((id(e), (e, e.tag)) for e in d.xmlnode.getroot().iter())
    try:
        d.save()
    except Exception as e:
        return ('save-raises', 'save of a document under %s raised %s: %s' % (uri, type(e).__name__, e))
    for e in d.xmlnode.getroot().iter():
        if id(e) in before:
            if e.tag != before[id(e)][1]:
                return ('save-moves-element', 'save under %s changed the tag of an existing element from %s to %s' % (uri, before[id(e)][1], e.tag))
        elif isinstance(e.tag, str) and not e.tag.startswith('{%s}' % uri):
            return ('save-new-element-ns', 'save under %s created the element %s outside the document namespace' % (uri, e.tag))
    return None


def run(ctx):
    ctx.rule = ('documents from vlib/docgen.py (all libraries, animations, foreign-namespace extras, permuted libraries), controller documents from the C19 '
                'generator (skins with Name/IDREF joints, morphs, malformed variants) and damaged documents (dangling reference + non-numeric token); each '
                'loaded under the 1.4.1 URI, the 1.5 URI and a random URI, default-namespace and prefixed; non-trivial = all; distinct by seed')
    reported = set()
    lines, want = [], []
    for i in range(ctx.n(110, 4000)):
        label, data, rep = make_doc(ctx.rng, i)
        uri = ctx.rng.choice([docgen.NS15, docgen.NS15, 'urn:example:%d' % ctx.rng.randrange(1000), 'http://example.org/ns/%d' % ctx.rng.randrange(100),
                              'http://example.org/my-ns/v%d#frag' % ctx.rng.randrange(9), 'urn:x-test:a~b,c?d=%d' % ctx.rng.randrange(9), 'tag:example.org,2026:collada+x',
                              'http://example.org/my%20schemas/collada', 'urn:x-percent:100%s%d%%'])
        prefixed = ctx.rng.random() < 0.4
        ctx.case(dict(kind=label, uri=uri, prefixed=prefixed, **rep))
        ctx.count('doc:' + label)
        res = compare(data, uri, prefixed)
        if res and res[0] not in reported:
            reported.add(res[0])
            ctx.violation('c15:' + res[0], res[1], dict(rep, uri=uri, prefixed=prefixed))
        if label == 'docgen' and b'</COLLADA>' in data:
            res = save_keeps_namespaces(data, uri)
            if res != 'skip':
                ctx.count('save:namespaces-kept')
                if res and res[0] not in reported:
                    reported.add(res[0])
                    ctx.violation('c15:' + res[0], res[1], dict(rep, uri=uri, kind2='save-ns'))
        if label == 'docgen' and b'<spline' not in data:
            import collada
            try:
                d = collada.Collada(io.BytesIO(rename(data, docgen.NS141, uri, False)))
                lines.append(tree_line(data, 'nsNEW'))
                ids = ','.join(g.id for g in d.geometries)
                want.append('own=%s renamed=%s' % (ids, ids))
            except Exception:
                pass
    # Collada._retagNamespace and the wrapper of save against renameNs / saveNs of the model
    import collada
    rl, rw = [], []
    for i in range(ctx.n(300, 6000)):
        toks, root = retag_case(ctx.rng)
        a, b = ctx.rng.sample(NSPOOL + ['nsNEW'], 2)
        d = collada.Collada()
        d.xmlnode = ET.ElementTree(root)
        if i % 2 == 0:
            rl.append('retag %s %s ; %s' % (a, b, ' '.join(toks)))
            d._retagNamespace(a, b)
            rw.append(ns_order(root))
        else:
            # the wrapper with a save that changes nothing: park the default namespace, move, move back, unpark
            rl.append('nssave nsD parked ; %s' % ' '.join(toks))
            doc_ns = root.tag[1:].split('}')[0]
            if doc_ns != 'nsD':
                d._retagNamespace('nsD', 'parked'); d._retagNamespace(doc_ns, 'nsD'); d._retagNamespace('nsD', doc_ns); d._retagNamespace('parked', 'nsD')
            rw.append(ns_order(root))
    if ctx.lean_ok and rl:
        for l, w, m in zip(rl, rw, ctx.driver('C15', rl)):
            ctx.count('kernel:' + l.split()[0])
            if m != w and 'corr:retag' not in reported and not any(v['found_input'] for v in ctx.violations):
                reported.add('corr:retag')
                ctx.violation('corr:retag', 'Collada._retagNamespace and Pyc.Ns.renameNs disagree on %r: model %r, implementation %r' % (l[:200], m, w),
                              dict(kind='kernel', line=l), found_input=False)
    if ctx.lean_ok and lines:
        for l, w, m in zip(lines, want, ctx.driver('C15', lines)):
            ctx.count('kernel:tree')
            if not m.startswith(w + ' ') and 'corr:view' not in reported and not any(v['found_input'] for v in ctx.violations):
                reported.add('corr:view')
                ctx.violation('corr:view', 'per-document view of the model and the loader disagree on %r: model %r, loader %r' % (l[:200], m, w),
                              dict(kind='kernel', line=l), found_input=False)


def replay(ctx, rep):
    if rep.get('kind') == 'kernel':
        return False
    res = compare(rebuild(rep), rep['uri'], rep['prefixed'])
    if res:
        print('  ' + res[1])
    return res is not None
