"""C10 — Item access, iteration and array views of a primitive agree.

Correspondence: random primitives (triangles, lines, polylist, polygons; 0..6 items incl. empty and
zero-corner polygons; with/without NORMAL, 0-2 TEXCOORD sets, shared / gapped offsets) are built
through Geometry.create*, instantiated in a scene under one or two nodes with random integer
matrices and a random list of material nodes, and bound through Scene.objects('geometry') /
BoundGeometry.primitives().  For the unbound and the bound primitive: len(), prim[i] for every
position -n-2 <= i <= n+1, list(prim) (legacy __getitem__ iteration) and shapes() / triangles() /
lines() / polygons() are compared with Pyc.ItemAccess (lean/drv/C10.lean) on the same spec.
Direct oracle on the implementation: every item against the primitive's own array views
(vertex[vertex_index[i]], normal, texcoord sets, polystarts/polyends/vcounts), against the ground truth
the generator knows (which source row every corner uses, the matrix, the material map), iteration
count against len(), IndexError outside -n <= i < n, absent inputs None / empty on every item.
"""
import copy

PID = 'C10'
META = dict(
    level_text=('Proof: Pyc/Props/C10.lean proves for every triangle set, line set, polylist and polygons object the constructor '
                'accepts, and for its binding under any vertex/normal transformation and material map, that prim[i] is defined exactly '
                'for -len <= i < len, that iteration by the legacy __getitem__ protocol and shapes() yield exactly prim[0..len-1] '
                '(nothing for an empty primitive, ending by IndexError), that item i carries vertex[vertex_index[i]] and the normal / '
                'texcoord / material analogues, that polyends-polystarts = vcounts and the polygon slices partition the corner rows, and '
                'that an absent input is None / empty on every item, bound or unbound. The model is tied to collada/triangleset.py, '
                'lineset.py, polylist.py, polygons.py, geometry.py on every run by a differential check of every position of random '
                'primitives bound through a scene; the property is also evaluated directly on the real objects, which yields replays.'),
    level_note=('Trusted: Lean kernel; axioms propext/Quot.sound/Classical.choice only; the hand-written model Pyc/Model/ItemAccess.lean '
                '(numpy reshape, fancy indexing, slicing, cumsum and Python\'s legacy iteration protocol are modelled, not verified) and the '
                'generator/canonicaliser in props/c10.py. Index entries and vcounts are non-negative and vcounts add up to the corner '
                'count (negative or inconsistent data belongs to C09). A Triangle without normals carries a computed face normal; '
                'its value is not compared (C18), only that it is three equal rows. Scene matrices are integer so float32 is exact.'),
    technique='Lean 4 proof over a model of item access, legacy iteration and binding + per-position correspondence with the pycollada primitives',
)
LEAN_MODULES = ['Pyc.Model.ItemAccess']

KINDS = ['tri', 'line', 'plist', 'pgons']
ARITY = {'tri': 3, 'line': 2}
IDENT = [[1, 0, 0, 0], [0, 1, 0, 0], [0, 0, 1, 0], [0, 0, 0, 1]]


# ----------------------------------------------------------------------------- generator

def rand_matrix(rng):
    r = rng.random()
    if r < 0.15:
        return copy.deepcopy(IDENT)
    m = [[rng.randint(-2, 2) for _ in range(4)] for _ in range(3)] + [[0, 0, 0, 1]]
    if r < 0.4:  # pure translation
        for i in range(3):
            for j in range(3):
                m[i][j] = 1 if i == j else 0
    return m


def gen_case(rng, kind=None, force=None):
    """a primitive spec; JSON-able"""
    force = force or {}
    kind = kind or rng.choice(KINDS)
    has_normal = force.get('normal', rng.random() < 0.5)
    ntex = force.get('ntex', rng.choice([0, 0, 1, 1, 2]))
    ninputs = 1 + int(has_normal) + ntex
    # offsets: usually distinct, sometimes shared, sometimes with a gap (unused column)
    mode = rng.random()
    if mode < 0.5:
        offs = list(range(ninputs))
        rng.shuffle(offs)
    elif mode < 0.8:
        offs = [rng.randint(0, max(0, ninputs - 1)) for _ in range(ninputs)]
    else:
        offs = rng.sample(range(ninputs + 2), ninputs)
    stride = max(offs) + 1
    # shapes
    size = force.get('size')
    if size is None:
        size = rng.choice([0, 0, 1, 1, 2, 2, 3, 4, 5, 6])
        if kind not in ARITY and rng.random() < 0.04:
            size = rng.randint(60, 130)      # enough corners to leave the range of a small integer type
    if kind in ARITY:
        vcounts = None
        ncorners = ARITY[kind] * size
    else:
        zero_heavy = rng.random() < 0.15
        vcounts = [0 if zero_heavy and rng.random() < 0.8 else rng.choice([0, 1, 2, 3, 3, 4, 4, 5]) for _ in range(size)]
        ncorners = sum(vcounts)

    def rows(n, dim):
        return [[rng.randint(-3, 3) for _ in range(dim)] for _ in range(n)]
    empty_src = ncorners == 0 and rng.random() < 0.3
    nv = 0 if empty_src else rng.randint(1, 5)
    nn = 0 if empty_src else rng.randint(1, 4)
    vdata = rows(nv, 3)
    normal = dict(off=offs[1], data=rows(nn, 3)) if has_normal else None
    tex = [dict(off=offs[1 + int(has_normal) + k], data=rows(0 if empty_src else rng.randint(1, 4), 2)) for k in range(ntex)]
    # per column: the largest index every input using the column can take
    limit = [6] * stride
    for off, data in [(offs[0], vdata)] + ([(normal['off'], normal['data'])] if normal else []) + [(t['off'], t['data']) for t in tex]:
        limit[off] = min(limit[off], len(data))
    stream = []
    for c in range(ncorners):
        for col in range(stride):
            stream.append(rng.randrange(limit[col]) if limit[col] > 0 else 0)
    via = 'load' if rng.random() < 0.25 and not (kind == 'pgons' and 0 in vcounts) else 'create'
    case = dict(kind=kind, via=via, material=rng.choice([None, 'a', 'a', 'b', 'c']), voff=offs[0], vdata=vdata, normal=normal, tex=tex,
                stride=stride, stream=stream, vcounts=vcounts,
                vcdtype=rng.choice(['int32', 'int32', 'int64', 'uint8', 'int8', 'int16', 'uint16']),     # counts are small numbers: callers hand them over in any integer type
                matrices=[rand_matrix(rng) for _ in range(rng.choice([1, 1, 1, 2]))],
                bindings=[[rng.choice(['a', 'b', 'c']), rng.randint(0, 2)] for _ in range(rng.choice([0, 1, 1, 2, 3]))])
    return case


def gen_rejected(rng):
    """a spec the constructor must refuse: an index beyond its source, or a ragged stream"""
    while True:
        case = gen_case(rng, force=dict(size=rng.randint(1, 3)))
        if not case['stream']:
            continue
        unit = case['stride'] * ARITY.get(case['kind'], 1)
        if rng.random() < 0.6 or case['kind'] == 'pgons' or unit == 1:
            # out of range in a column that an input reads
            cols = [case['voff']] + ([case['normal']['off']] if case['normal'] else []) + [t['off'] for t in case['tex']]
            col = rng.choice(cols)
            corner = rng.randrange(len(case['stream']) // case['stride'])
            case['stream'][corner * case['stride'] + col] = 6 + rng.randint(0, 3)
        else:
            # ragged: the stream is not a whole number of corners / triangles / lines
            case['stream'] = case['stream'][:-1]
        case['expect_reject'] = True
        return case


def matmul(a, b):
    return [[sum(a[i][k] * b[k][j] for k in range(4)) for j in range(4)] for i in range(4)]


def final_matrix(case):
    m = copy.deepcopy(IDENT)
    for x in case['matrices']:
        m = matmul(m, x)
    return m


def poly_streams(case):
    """the per-<p> index arrays of a polygons primitive"""
    out, pos = [], 0
    for c in case['vcounts']:
        out.append(case['stream'][pos * case['stride']:(pos + c) * case['stride']])
        pos += c
    return out


def positions(n):
    return list(range(-n - 2, n + 2))


# ----------------------------------------------------------------------------- protocol lines

def fl(xs):
    return ' '.join(str(x) for x in xs)


def new_line(case):
    parts = ['new %s %s' % (case['kind'], case['material'] or '_')]
    parts.append('v %d %s' % (case['voff'], fl(x for r in case['vdata'] for x in r)))
    if case['normal']:
        parts.append('n %d %s' % (case['normal']['off'], fl(x for r in case['normal']['data'] for x in r)))
    for t in case['tex']:
        parts.append('t %d %s' % (t['off'], fl(x for r in t['data'] for x in r)))
    if case['kind'] == 'pgons':
        for p in poly_streams(case):
            parts.append('p %s' % fl(p))
    else:
        parts.append('p %s' % fl(case['stream']))
    if case['kind'] == 'plist':
        parts.append('c %s' % fl(case['vcounts']))
    parts.append('m %s' % fl(x for r in final_matrix(case) for x in r))
    parts.append('b %s' % ' '.join('%s=mat%d' % (s, t) for s, t in case['bindings']))
    return ' | '.join(' '.join(p.split()) for p in parts)


def nitems(case):
    if case['kind'] in ARITY:
        return len(case['stream']) // (case['stride'] * ARITY[case['kind']])
    return len(case['vcounts'])


def lines_of(case):
    out = [new_line(case)]
    if case.get('expect_reject'):
        return out
    n = nitems(case)
    for w in 'ub':
        out.append('len %s' % w)
        for i in positions(n):
            out.append('item %s %d' % (w, i))
        out.append('iter %s' % w)
    out.append('shapes b')
    return out


MALFORMED = [
    'new', 'new tri', 'new tri m | v 0 0 0 0 | p 0 0 0', 'new cube m | v 0 0 0 0 | p 0 0 0 | m 1 0 0 0 0 1 0 0 0 0 1 0 0 0 0 1 | b',
    'new tri m | v 0 0 0 x | p 0 0 0 | m 1 0 0 0 0 1 0 0 0 0 1 0 0 0 0 1 | b', 'new tri m | v 0 0 0 | p 0 0 0 | m 1 0 0 0 0 1 0 0 0 0 1 0 0 0 0 1 | b',
    'new tri m | v 0 0 0 0 | p 0 0 -1 | m 1 0 0 0 0 1 0 0 0 0 1 0 0 0 0 1 | b', 'new tri m | v 0 0 0 0 | p 0 0 0 | m 1 0 0 0 | b',
    'new plist m | v 0 0 0 0 | p 0 0 0 | m 1 0 0 0 0 1 0 0 0 0 1 0 0 0 0 1 | b', 'new tri m | v 0 0 0 0 | p 0 0 0 | c 1 | m 1 0 0 0 0 1 0 0 0 0 1 0 0 0 0 1 | b',
    'new tri m | v 0 0 0 0 | p 0 0 0 | m 1 0 0 0 0 1 0 0 0 0 1 0 0 0 0 1 | b a', 'new tri m | v 0 0 0 0 | v 0 0 0 0 | p 0 0 0 | m 1 0 0 0 0 1 0 0 0 0 1 0 0 0 0 1 | b',
    'item u', 'item x 0', 'item u one', 'len', 'len z', 'iter', 'shapes q', 'frobnicate u', '', 'item u 0 0', 'new tri m | q 1 | p',
]


# ----------------------------------------------------------------------------- the real code

class Built(object):
    pass


def build(case):
    """construct the primitive through the public API and bind it through a scene.
    Returns Built (p, bp, mats) or the exception class name of a refused construction."""
    import numpy
    import collada
    from collada import source, geometry, material, scene
    mesh = collada.Collada()

    def arr(rows):
        return numpy.array([x for r in rows for x in r], dtype=numpy.float32)
    srcs = [source.FloatSource('v', arr(case['vdata']), ('X', 'Y', 'Z'))]
    il = source.InputList()
    il.addInput(case['voff'], 'VERTEX', '#v')
    if case['normal']:
        srcs.append(source.FloatSource('n', arr(case['normal']['data']), ('X', 'Y', 'Z')))
        il.addInput(case['normal']['off'], 'NORMAL', '#n')
    for k, t in enumerate(case['tex']):
        srcs.append(source.FloatSource('t%d' % k, arr(t['data']), ('S', 'T')))
        il.addInput(t['off'], 'TEXCOORD', '#t%d' % k, str(k))
    geom = geometry.Geometry(mesh, 'g', 'g', srcs)
    idx = numpy.array(case['stream'], dtype=numpy.int32)
    try:
        if case['kind'] == 'tri':
            p = geom.createTriangleSet(idx, il, case['material'])
        elif case['kind'] == 'line':
            p = geom.createLineSet(idx, il, case['material'])
        elif case['kind'] == 'plist':
            p = geom.createPolylist(idx, numpy.array(case['vcounts'], dtype=getattr(numpy, case.get('vcdtype', 'int32'))), il, case['material'])
        else:
            p = geom.createPolygons([numpy.array(s, dtype=numpy.int32) for s in poly_streams(case)], il, case['material'])
    except Exception as e:
        return type(e).__name__
    geom.primitives.append(p)
    mesh.geometries.append(geom)
    b = Built()
    b.mats = []
    for k in range(3):
        eff = material.Effect('eff%d' % k, [], 'phong', diffuse=(1, 0, 0))
        mat = material.Material('mat%d' % k, 'mat%d' % k, eff)
        mesh.effects.append(eff)
        mesh.materials.append(mat)
        b.mats.append(mat)
    matnodes = [scene.MaterialNode(s, b.mats[t], inputs=[]) for s, t in case['bindings']]
    node = scene.GeometryNode(geom, matnodes)
    for k, m in reversed(list(enumerate(case['matrices']))):
        tr = scene.MatrixTransform(numpy.array([x for r in m for x in r], dtype=numpy.float32))
        node = scene.Node('n%d' % k, children=[node], transforms=[tr])
    sc = scene.Scene('s', [node])
    mesh.scenes.append(sc)
    mesh.scene = sc
    bgs = list(mesh.scene.objects('geometry'))
    if len(bgs) != 1:
        raise AssertionError('scene yields %d bound geometries' % len(bgs))
    bps = list(bgs[0].primitives())
    if len(bps) != 1:
        raise AssertionError('bound geometry yields %d primitives' % len(bps))
    b.p, b.bp, b.mesh = p, bps[0], mesh
    b.via = 'create'
    if case.get('via') == 'load':
        # the same primitive as pycollada reads it back from its own XML (writing and loading as such
        # belong to C01/C05/C08: if they fail here the constructed objects are used and the histogram says so)
        import io
        try:
            buf = io.BytesIO()
            mesh.write(buf)
            m2 = collada.Collada(io.BytesIO(buf.getvalue()))
            p2 = m2.geometries[0].primitives[0]
            bg2 = list(m2.scene.objects('geometry'))
            bp2 = list(bg2[0].primitives())
            mats2 = [m2.materials['mat%d' % k] for k in range(3)]
            if type(p2) is type(p) and len(bg2) == 1 and len(bp2) == 1:
                b.p, b.bp, b.mesh, b.mats, b.via = p2, bp2[0], m2, mats2, 'load'
            else:
                b.via = 'load-differs'
        except Exception as e:
            b.via = 'load-failed:' + type(e).__name__
    return b


def num(x):
    x = float(x)
    return str(int(x)) if abs(x) < 1e9 and x == int(x) else repr(x)


def show_rows(a):
    return '[' + ','.join('[' + ','.join(num(x) for x in r) + ']' for r in a) + ']'


def show_idx(a):
    import numpy
    if a is None:
        return 'None'
    if not isinstance(a, numpy.ndarray):
        return 'raw:%r' % (a,)
    return '[' + ','.join(num(x) for x in a) + ']'


def is_generated_normal(n):
    """three equal rows (or NaN for a degenerate triangle): the face normal a Triangle computes"""
    import numpy
    if not isinstance(n, numpy.ndarray) or n.shape != (3, 3):
        return False
    return all(numpy.array_equal(n[0], n[k], equal_nan=True) for k in (1, 2))


def show_item(case, it, bound):
    kind = case['kind']
    if bound:
        mat = getattr(it.material, 'id', 'not-a-material:%r' % (it.material,)) if it.material is not None else 'None'
    else:
        mat = it.material if it.material is not None else 'None'
    idx = show_idx(it.indices)
    v = show_rows(it.vertices)
    tex = '[' + ','.join(show_rows(t) for t in it.texcoords) + ']'
    if kind == 'line':
        n = 'None' if it.normals is None else show_rows(it.normals)
        return 'idx=%s v=%s n=%s t=%s mat=%s' % (idx, v, n, tex, mat)
    if it.normals is None:
        n = 'None'
    elif kind == 'tri' and not case['normal'] and is_generated_normal(it.normals):
        n = 'gen'
    else:
        n = show_rows(it.normals)
    tidx = '[' + ','.join(show_idx(t) for t in it.texcoord_indices) + ']'
    return 'idx=%s v=%s nidx=%s n=%s tidx=%s t=%s mat=%s' % (idx, v, show_idx(it.normal_indices), n, tidx, tex, mat)


def guarded(f):
    """('ok', value) | ('exc', class name)"""
    try:
        return 'ok', f()
    except Exception as e:
        return 'exc', type(e).__name__


def exc_answer(name):
    return 'IndexError' if name == 'IndexError' else 'raw:' + name


def shapes_method(kind):
    return {'tri': 'triangles', 'line': 'lines', 'plist': 'polygons', 'pgons': 'polygons'}[kind]


def observe(case, b):
    """answers of the real objects in driver order, plus the raw items for the oracle"""
    n = nitems(case)
    out = ['ok len=%d' % len(b.p)]
    obs = {}
    for w, q in (('u', b.p), ('b', b.bp)):
        bound = w == 'b'
        out.append(str(len(q)))
        items = {}
        for i in positions(n):
            st, r = guarded(lambda: q[i])
            items[i] = (st, r)
            out.append(show_item(case, r, bound) if st == 'ok' else exc_answer(r))
        st, r = guarded(lambda: list(q))
        obs[w] = dict(q=q, items=items, it=(st, r))
        out.append('n=%d %s' % (len(r), ';'.join(show_item(case, x, bound) for x in r)) if st == 'ok' else exc_answer(r))
    st, r = guarded(lambda: list(b.bp.shapes()))
    st2, r2 = guarded(lambda: list(getattr(b.bp, shapes_method(case['kind']))()))
    obs['shapes'] = (st, r)
    obs['shapes2'] = (st2, r2)
    out.append('n=%d %s' % (len(r), ';'.join(show_item(case, x, True) for x in r)) if st == 'ok' else exc_answer(r))
    return out, obs


# ----------------------------------------------------------------------------- ground truth from the spec

def expected_item(case, i, bound):
    """what item i (0 <= i < n) must carry, computed from the spec alone"""
    stride, stream = case['stride'], case['stream']
    if case['kind'] in ARITY:
        a = ARITY[case['kind']]
        corners = list(range(a * i, a * i + a))
    else:
        s = sum(case['vcounts'][:i])
        corners = list(range(s, s + case['vcounts'][i]))
    m = final_matrix(case)

    def col(off):
        return [stream[c * stride + off] for c in corners]

    def pt(v):
        return [sum(m[r][k] * v[k] for k in range(3)) + m[r][3] for r in range(3)]

    def dr(v):
        return [sum(m[r][k] * v[k] for k in range(3)) for r in range(3)]
    vi = col(case['voff'])
    v = [case['vdata'][j] for j in vi]
    if bound:
        v = [pt(x) for x in v]
    if case['normal']:
        ni = col(case['normal']['off'])
        nv = [case['normal']['data'][j] for j in ni]
        if bound:
            nv = [dr(x) for x in nv]
    else:
        ni = nv = None
    ti = [col(t['off']) for t in case['tex']]
    tv = [[t['data'][j] for j in idx] for t, idx in zip(case['tex'], ti)]
    if bound:
        mat = None
        for s, t in case['bindings']:
            if s == case['material']:
                mat = 'mat%d' % t
    else:
        mat = case['material']
    return dict(idx=vi, v=v, nidx=ni, n=nv, tidx=ti, t=tv, mat=mat)


def same_rows(arr, rows, width):
    import numpy
    if not isinstance(arr, numpy.ndarray):
        return False
    want = numpy.array(rows, dtype=numpy.float64).reshape((-1, width))
    return arr.shape == want.shape and numpy.array_equal(numpy.asarray(arr, dtype=numpy.float64), want)


def same_idx(arr, idx):
    import numpy
    return isinstance(arr, numpy.ndarray) and arr.ndim == 1 and [int(x) for x in arr] == list(idx) and all(float(x) == int(x) for x in arr)


def is_empty_seq(x):
    return isinstance(x, (list, tuple)) and len(x) == 0


def check_item(case, it, i, bound, q, b):
    """one item against the ground truth and against the primitive's own array views.
    Returns (aspect, description) or None."""
    import numpy
    kind = case['kind']
    exp = expected_item(case, i, bound)
    where = '%s %s[%d]' % ('bound' if bound else 'unbound', kind, i)
    # ---- ground truth
    if not same_idx(it.indices, exp['idx']):
        return 'indices', '%s: indices %s, the index stream says %s' % (where, show_idx(it.indices), exp['idx'])
    if not same_rows(it.vertices, exp['v'], 3):
        return 'vertices', '%s: vertices %s, expected %s' % (where, show_rows(it.vertices), exp['v'])
    if exp['n'] is None:
        if kind == 'tri':
            if not is_generated_normal(it.normals):
                return 'normals', '%s: no NORMAL input, but normals is not a computed face normal: %r' % (where, it.normals)
        elif it.normals is not None:
            return 'absent:normals', '%s: no NORMAL input, but normals is %r' % (where, it.normals)
        if kind != 'line' and it.normal_indices is not None:
            return 'absent:normal_indices', '%s: no NORMAL input, but normal_indices is %r (neither None nor an empty tuple)' % (where, it.normal_indices)
    else:
        if not same_rows(it.normals, exp['n'], 3):
            return 'normals', '%s: normals %r, expected %s' % (where, it.normals, exp['n'])
        if kind != 'line' and not same_idx(it.normal_indices, exp['nidx']):
            return 'normal_indices', '%s: normal_indices %r, expected %s' % (where, it.normal_indices, exp['nidx'])
    if not isinstance(it.texcoords, (list, tuple)) or len(it.texcoords) != len(exp['t']):
        return ('absent:texcoords' if not exp['t'] else 'texcoords'), '%s: texcoords %r for %d texcoord sets' % (where, it.texcoords, len(exp['t']))
    for k, tv in enumerate(exp['t']):
        if not same_rows(it.texcoords[k], tv, 2):
            return 'texcoords', '%s: texcoords[%d] %r, expected %s' % (where, k, it.texcoords[k], tv)
    if kind != 'line':
        ti = it.texcoord_indices
        if not isinstance(ti, (list, tuple)) or len(ti) != len(exp['tidx']):
            return ('absent:texcoord_indices' if not exp['tidx'] else 'texcoord_indices'), '%s: texcoord_indices %r for %d texcoord sets' % (where, ti, len(exp['tidx']))
        for k, idx in enumerate(exp['tidx']):
            if not same_idx(ti[k], idx):
                return 'texcoord_indices', '%s: texcoord_indices[%d] %r, expected %s' % (where, k, ti[k], idx)
    if bound:
        want = None if exp['mat'] is None else b.mats[int(exp['mat'][3:])]
        if it.material is not want:
            return 'material', '%s: material %r, the material map gives %r' % (where, it.material, want)
    elif it.material != exp['mat']:
        return 'material', '%s: material %r, the primitive has %r' % (where, it.material, exp['mat'])
    # ---- the primitive's own array views (what the property names)
    try:
        if kind in ARITY:
            sel = lambda view: view[i]
        else:
            s, e = int(b.p.polystarts[i]), int(b.p.polyends[i])
            if e - s != case['vcounts'][i] or len(it.indices) != case['vcounts'][i]:
                return 'extent', '%s: polystarts/polyends give %d..%d, item has %d corners, vcount is %d' % (where, s, e, len(it.indices), case['vcounts'][i])
            sel = lambda view: view[s:e]
        if not numpy.array_equal(it.indices, sel(q.vertex_index)) or not numpy.array_equal(it.vertices, q.vertex[sel(q.vertex_index)]):
            return 'views:vertex', '%s differs from vertex[vertex_index[i]]' % where
        if q.normal is None:
            if exp['n'] is not None:
                return 'views:normal', '%s: NORMAL input present but the normal view is None' % where
        elif exp['n'] is None or not numpy.array_equal(it.normals, q.normal[sel(q.normal_index)]):
            return 'views:normal', '%s differs from normal[normal_index[i]]' % where
        if len(q.texcoordset) != len(it.texcoords) or len(q.texcoord_indexset) != len(it.texcoords):
            return 'views:texcoord', '%s: %d texcoord sets on the primitive, %d on the item' % (where, len(q.texcoordset), len(it.texcoords))
        for k in range(len(it.texcoords)):
            if not numpy.array_equal(it.texcoords[k], q.texcoordset[k][sel(q.texcoord_indexset[k])]):
                return 'views:texcoord', '%s differs from texcoordset[%d][texcoord_indexset[%d][i]]' % (where, k, k)
    except Exception as e:
        return 'views:' + type(e).__name__, '%s: reading the array views raised %s: %s' % (where, type(e).__name__, e)
    return None


def oracle(case, b, obs):
    """the property evaluated on the real objects. Returns (signature, description) or None"""
    kind = case['kind']
    n = nitems(case)
    if kind not in ARITY:
        # polystarts / polyends against vcounts
        ps, pe = [int(x) for x in b.p.polystarts], [int(x) for x in b.p.polyends]
        vc = case['vcounts']
        ok = len(ps) == len(pe) == len(vc) and all(pe[i] - ps[i] == vc[i] for i in range(len(vc))) and \
            all(ps[i] == (pe[i - 1] if i else 0) for i in range(len(vc))) and (not vc or pe[-1] == sum(vc))
        if not ok:
            return 'extent:%s' % kind, 'polystarts %s / polyends %s do not partition the corners of vcounts %s' % (ps, pe, vc)
    for w in 'ub':
        o = obs[w]
        q = o['q']
        bound = w == 'b'
        tag = '%s:%s' % (kind, 'bound' if bound else 'unbound')
        if len(q) != n:
            return 'len:' + tag, 'len() is %d, the primitive has %d shapes' % (len(q), n)
        # every position
        for i in positions(n):
            st, r = o['items'][i]
            inside = -n <= i < n
            if inside and st != 'ok':
                return 'item:%s:%s' % (tag, r), '%s prim[%d] of a primitive with %d items raised %s' % (tag, i, n, r)
            if not inside and (st == 'ok' or r != 'IndexError'):
                return 'item:%s:outside:%s' % (tag, 'value' if st == 'ok' else r), \
                    '%s prim[%d] of a primitive with %d items %s instead of raising IndexError' % (tag, i, n, 'returned an item' if st == 'ok' else 'raised ' + r)
            if inside:
                bad = check_item(case, r, i % n, bound, q, b)
                if bad:
                    return '%s:%s' % (bad[0], tag), bad[1]
        # iteration
        st, r = o['it']
        if st != 'ok':
            return 'iter:%s:%s' % (tag, r), 'iterating a %s with %d items raised %s instead of yielding %d items' % (tag, n, r, n)
        if len(r) != n:
            return 'iter:%s:count' % tag, 'iterating a %s with len() %d yielded %d items' % (tag, n, len(r))
        for i, it in enumerate(r):
            bad = check_item(case, it, i, bound, q, b)
            if bad:
                return 'iter:%s:%s' % (tag, bad[0]), 'item %d of the iteration: %s' % (i, bad[1])
        # absent inputs look the same on every item
        kinds = set((type(it.texcoords).__name__, getattr(it, 'normal_indices', None) is None, it.normals is None) for it in r)
        if len(kinds) > 1:
            return 'absent:%s:inconsistent' % tag, 'items of one primitive disagree on how inputs show up: %s' % sorted(kinds)
    for key, name in (('shapes', 'shapes'), ('shapes2', shapes_method(kind))):
        st, r = obs[key]
        tag = '%s:bound' % kind
        if st != 'ok':
            return '%s:%s:%s' % ('shapes', tag, r), 'bound.%s() of a primitive with %d items raised %s' % (name, n, r)
        if len(r) != n:
            return 'shapes:%s:count' % tag, 'bound.%s() yielded %d items, len() is %d' % (name, len(r), n)
        for i, it in enumerate(r):
            bad = check_item(case, it, i, True, b.bp, b)
            if bad:
                return 'shapes:%s:%s' % (tag, bad[0]), 'item %d of bound.%s(): %s' % (i, name, bad[1])
    return None


def items_vs_views(prim, label):
    """every way of getting at item i gives the vertices / normals the array views give for position i. Returns None or (sig, text)"""
    import numpy
    n = len(prim)
    routes = [('[i]', [prim[i] for i in range(n)]), ('iteration', list(prim))]
    for m in ('shapes', 'triangles'):
        if hasattr(prim, m):
            routes.append((m + '()', list(getattr(prim, m)())))
    for name, items in routes:
        if len(items) != n:
            return ('views:%s:count' % label, '%s of a %s yields %d items, len() is %d' % (name, label, len(items), n))
        for i, it in enumerate(items):
            want_v = prim.vertex[prim.vertex_index[i]]
            if not numpy.array_equal(numpy.asarray(it.vertices), want_v, equal_nan=True):
                return ('views:%s:vertices' % label, 'item %d from %s of a %s carries vertices %s, the views give %s' % (i, name, label, numpy.asarray(it.vertices).tolist(), want_v.tolist()))
            if prim.normal is not None and prim.normal_index is not None:
                want_n = prim.normal[prim.normal_index[i]]
                if it.normals is None or not numpy.array_equal(numpy.asarray(it.normals), want_n, equal_nan=True):
                    return ('views:%s:normals' % label, 'item %d from %s of a %s carries normals %s, the views give %s'
                            % (i, name, label, None if it.normals is None else numpy.asarray(it.normals).tolist(), want_n.tolist()))
    return None


def after_generate(b, kind):
    """triangle sets: the views are replaced by generateNormals(); items fetched afterwards follow them (the set was traversed before)"""
    if kind != 'tri' or len(b.p) == 0:
        return None
    for prim, label in ((b.bp, 'bound triangle set'), (b.p, 'triangle set')):
        if not hasattr(prim, 'generateNormals'):
            continue
        list(prim)
        if hasattr(prim, 'shapes'):
            list(prim.shapes())
        try:
            prim.generateNormals()
        except Exception as e:
            return ('views:generate-raised', 'generateNormals() of a %s raised %s' % (label, type(e).__name__))
        bad = items_vs_views(prim, label + ' after generateNormals()')
        if bad:
            return bad
    return None


def run_impl(case):
    """(answers, oracle failure or None)"""
    import warnings
    with warnings.catch_warnings():
        # a Triangle without normals divides by the length of its face normal; degenerate triangles warn
        warnings.simplefilter('ignore', RuntimeWarning)
        return _run_impl(case)


def _run_impl(case):
    b = build(case)
    if isinstance(b, str):
        if case.get('expect_reject'):
            return ['reject'], None
        return ['reject'], ('construct:%s:%s' % (case['kind'], b), 'constructing a valid %s raised %s' % (case['kind'], b))
    if case.get('expect_reject'):
        # accepted although an index is outside its source / the stream is ragged: C09's subject, not C10's;
        # the correspondence line reports it
        return ['ok len=%d' % len(b.p)], None
    answers, obs = observe(case, b)
    case['_via'] = b.via
    bad = oracle(case, b, obs)
    if bad is None:
        bad = after_generate(b, case['kind'])
    return answers, bad


# ----------------------------------------------------------------------------- shrinking

def shrink(case, sig):
    def fails(c):
        try:
            _, bad = run_impl(c)
        except Exception:
            return False
        return bad is not None and bad[0] == sig

    def candidates(c):
        k = c['kind']
        n = nitems(c)
        unit = c['stride'] * ARITY.get(k, 1)
        if k in ARITY:
            for i in range(n):
                d = copy.deepcopy(c)
                del d['stream'][i * unit:(i + 1) * unit]
                yield d
        else:
            pos = 0
            for i, vc in enumerate(c['vcounts']):
                d = copy.deepcopy(c)
                del d['stream'][pos * c['stride']:(pos + vc) * c['stride']]
                del d['vcounts'][i]
                yield d
                if vc > 0:
                    d = copy.deepcopy(c)
                    del d['stream'][(pos + vc - 1) * c['stride']:(pos + vc) * c['stride']]
                    d['vcounts'][i] -= 1
                    yield d
                pos += vc
        if c['bindings']:
            d = copy.deepcopy(c)
            d['bindings'].pop()
            yield d
        if len(c['matrices']) > 1:
            d = copy.deepcopy(c)
            d['matrices'].pop()
            yield d
        if c['matrices'] != [IDENT]:
            d = copy.deepcopy(c)
            d['matrices'] = [copy.deepcopy(IDENT)]
            yield d
        if c['material'] is not None:
            d = copy.deepcopy(c)
            d['material'] = None
            yield d
    changed = True
    while changed:
        changed = False
        for d in candidates(case):
            if fails(d):
                case = d
                changed = True
                break
    return case


# ----------------------------------------------------------------------------- entry points

def run(ctx):
    ctx.rule = ('random primitives: kind in {triangles, lines, polylist, polygons}; 0..6 items (20% empty; polygons with 0..5 corners, 15% '
                'mostly zero-corner); NORMAL present or not; 0-2 TEXCOORD sets; offsets distinct / shared / gapped; sources of 1..5 rows '
                '(empty for some empty primitives) with coordinates in [-3,3]; material symbol in {None,a,b,c}; 0..3 material nodes over '
                'symbols {a,b,c}; one or two nested nodes with integer matrices (entries in [-2,2], identity, pure translation); every '
                'position -n-2..n+1 on the unbound and the bound primitive, list(), shapes(); 25% of the primitives are written to XML and read back first; plus 4% specs the constructor must refuse and '
                'a fixed malformed protocol stream. A case is non-trivial when the primitive has at least one item; distinct = distinct spec')
    ncases = ctx.n(4000, 60000)
    cases = []
    # directed: every kind x normal x ntex x size 0..2 at least once
    for kind in KINDS:
        for normal in (False, True):
            for ntex in (0, 1, 2):
                for size in (0, 1, 2):
                    cases.append(gen_case(ctx.rng, kind, dict(normal=normal, ntex=ntex, size=size)))
    while len(cases) < ncases:
        cases.append(gen_rejected(ctx.rng) if ctx.rng.random() < 0.04 else gen_case(ctx.rng))
    reported = set()
    CHUNK = 4000  # one driver batch per 4000 cases (the quick tier is a single batch)
    for start in range(0, len(cases), CHUNK):
        chunk = cases[start:start + CHUNK]
        last = start + CHUNK >= len(cases)
        lines = []
        for c in chunk:
            lines.extend(lines_of(c))
        nreal = len(lines)
        if last:
            lines.extend(MALFORMED)
        model = ctx.driver('C10', lines) if ctx.lean_ok else None
        pos = 0
        for c in chunk:
            ls = lines_of(c)
            answers, bad = run_impl(c)
            n = nitems(c)
            ctx.count('via:' + c.pop('_via', 'none'))
            ctx.case(c, nontrivial=n > 0 and not c.get('expect_reject'))
            ctx.count('kind:' + c['kind'])
            ctx.count('size:%d' % min(n, 6))
            ctx.count('inputs:normal=%d,tex=%d' % (1 if c['normal'] else 0, len(c['tex'])))
            ctx.count('nodes:%d' % len(c['matrices']))
            ctx.count('outcome:' + ('reject' if answers[0] == 'reject' else 'accept'))
            ctx.count('positions', len(positions(n)) * 2 if not c.get('expect_reject') else 0)
            if c['kind'] not in ARITY and any(v == 0 for v in c['vcounts']):
                ctx.count('polygons-with-zero-corners')
            if bad:
                if bad[0] not in reported:
                    reported.add(bad[0])
                    small = shrink(c, bad[0])
                    _, b2 = run_impl(small)
                    small.pop('_via', None)
                    ctx.violation(b2[0], b2[1], dict(kind='oracle', case=small, lines=lines_of(small)))
            elif model is not None:
                want = model[pos:pos + len(ls)]
                if want != answers:
                    i = next(j for j in range(len(ls)) if j >= len(answers) or want[j] != answers[j])
                    op = ls[i].split(' ')[0] + (':' + ls[i].split(' ')[1] if i else '')
                    sig = 'corr:%s:%s' % (c['kind'], op)
                    if sig not in reported:
                        reported.add(sig)
                        ctx.violation(sig, 'correspondence Pyc.ItemAccess <-> pycollada broke at %r: model %r, implementation %r; the direct '
                                      'oracle found no failing input on this case (the theorems of Pyc/Props/C10.lean no longer describe the code)'
                                      % (ls[i], want[i], answers[i] if i < len(answers) else None),
                                      dict(kind='correspondence', case=c, line=ls[i], model=want[i], impl=answers[i] if i < len(answers) else None),
                                      found_input=False)
            pos += len(ls)
        if model is not None and last:
            tail = model[nreal:]
            wrong = [l for l, a in zip(MALFORMED, tail) if a != 'bad-op']
            ctx.count('malformed-lines', len(MALFORMED))
            if wrong:
                ctx.violation('corr:malformed', 'driver accepted malformed request(s): %r' % wrong[:3], dict(kind='correspondence', lines=wrong), found_input=False)
    ctx.assumptions.append('numpy reshape / fancy indexing / slicing / cumsum and the legacy __getitem__ iteration protocol are modelled '
                           '(Pyc/Model/ItemAccess.lean); index entries and vcounts are non-negative and vcounts add up to the corner count')


def replay(ctx, rep):
    case = rep['case']
    answers, bad = run_impl(case)
    if bad:
        print('  %s: %s' % bad)
        return True
    if rep.get('kind') == 'correspondence' and 'line' in rep:
        ls = lines_of(case)
        if rep['line'] in ls:
            got = answers[ls.index(rep['line'])] if ls.index(rep['line']) < len(answers) else None
            print('  implementation answers %r, the model said %r' % (got, rep.get('model')))
            return got != rep.get('model')
    return False
