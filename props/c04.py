"""C04 — every written document is schema-valid COLLADA 1.4.1 and self-consistent.

Proof: Pyc/Props/C04.lean: content models of the emitted vocabulary are regenerated from collada/resources/schema-1.4.1.xml on every run
(translators/xsd_table.py) as regular expressions; theorems state, per element kind, that the child sequence the writer emits is in the
language of its content model (for every number of sources, primitives, transforms, children, parameters ...).
Correspondence: (a) the Lean validator vs the JDK's Xerces on random element trees over the emitted vocabulary, valid and mutated
(validates the translator); (b) the emitter functions of the Lean model vs the child sequences of real written documents.
Direct oracle: every document written from schema-respecting models and edit histories is validated by Xerces against the shipped schema, and all
redundant bookkeeping is recounted from the data (array/accessor counts and strides, primitive counts, vcount and index totals, unique ids,
VERTEX inputs pointing at a <vertices> element).
"""
import io
import os

import numpy
import random
import re
import xml.etree.ElementTree as ET

from vlib import core, modelgen, editgen, xsdval
from props import c02

PID = 'C04'
TRANSLATORS = ['xsd_table', 'sync_calls']
LEAN_MODULES = ['Pyc.Model.Sync', 'Pyc.Model.Schema']
LEAN_PROPS = ['Pyc.Props.C04', 'Pyc.Props.C04b', 'Pyc.Props.C04c', 'Pyc.Props.C04d']
META = dict(
    level_text=('Proof of the per-element emission theorems over content models translated from the shipped XSD on every run + independent validation. '
                'Pyc/Props/C04.lean proves, for unbounded numbers of children, that what the writer emits for <COLLADA>, the libraries, <source>, <mesh>, each primitive, '
                '<node>, <visual_scene>, lights, cameras, <effect>/<profile_COMMON>/shaders, <material>, <image>, <asset>, <scene> and the instance elements is in the '
                'language of the content model of that element (emit_*_valid), the models being regular expressions generated from schema-1.4.1.xml; '
                'the generated table is validated against Xerces on random trees, the emitter functions against real written documents, and every written '
                'document of the exploration is validated by Xerces (the "independent XSD processor") and its bookkeeping recounted. '
                'Pyc/Props/C04c.lean adds the save side for LOADED elements after any edit history: what Effect.save leaves below <technique> and <profile_COMMON>, '
                'MaterialNode.save below <instance_material>, Geometry.save below <mesh> matches the content model (save_technique_valid, profile_valid_after_save, '
                'instance_material_valid, mesh_valid_after_save), with the managed/before arguments of the _syncChildren calls regenerated from the source '
                '(translators/sync_calls.py, calls_in_source, *_src theorems) and the real save methods driven on generated elements.'),
    level_note=('Trusted: Lean kernel + standard axioms; translators/xsd_table.py (XSD subset: sequence/choice/group/extension/minOccurs/maxOccurs/xs:any; identity constraints and '
                'simple-type facets are NOT translated, they are checked by Xerces only); Mathlib\'s RegularExpression; the JDK\'s Xerces; vlib/modelgen.py in schema mode and '
                'the schema-respecting edit normaliser of this file define "content that respects the schema\'s value constraints". lxml is absent, so pycollada\'s own '
                'validate_output path is a no-op and is not exercised.'),
    technique='Lean 4 theorems (emitted child sequences are in the regular language of the XSD content model, table regenerated from the XSD each run) + Xerces as independent validator + bookkeeping recount',
)
DATA = c02.DATA
NS = '{http://www.collada.org/2005/11/COLLADASchema}'
KIND_ORDER = {'CameraNode': 0, 'ControllerNode': 1, 'GeometryNode': 2, 'LightNode': 3, 'NodeNode': 4, 'Node': 5, 'ExtraNode': 6}


def schema_respecting(doc):
    """bring an edited model back into the schema's value constraints where the USER is responsible for them
    (node children in schema order, non-empty scenes, no <zfar> on point lights, shader-specific parameters, one binding per symbol)"""
    from collada import scene, light, material
    for n in editgen.all_nodes(doc):
        n.children.sort(key=lambda c: KIND_ORDER.get(type(c).__name__, 9))
        for c in n.children:
            if isinstance(c, scene.GeometryNode):
                seen = set()
                c.materials[:] = [m for m in c.materials if not (m.symbol in seen or seen.add(m.symbol))]
    for s in doc.scenes:
        if not s.nodes:
            s.nodes.append(scene.Node('filler_' + s.id))
    for l in doc.lights:
        if isinstance(l, light.PointLight):
            l.zfar = None
    allowed = {
        'lambert': ('specular', 'shininess'),
        'constant': ('ambient', 'diffuse', 'specular', 'shininess'),
    }
    for e in doc.effects:
        for p in allowed.get(e.shadingtype, ()):
            setattr(e, p, None)


def optional_children_exercise(doc, r):
    """unset the optional values of lights, contributors and samplers, save, then set them again one by one in a random
    order with a save after each: every intermediate document must keep its children in schema order"""
    from collada import light, material
    objs = []
    for l in doc.lights:
        names = [a for a in ('constant_att', 'linear_att', 'quad_att', 'falloff_ang', 'falloff_exp') if hasattr(l, a)]
        if names:
            objs.append((l, names, lambda: r.choice([0.5, 0.0, 2.0])))
    for c in doc.assetInfo.contributors:
        objs.append((c, ['author', 'authoring_tool', 'comments', 'copyright', 'source_data'], lambda: 'text'))
    for e in doc.effects:
        for p in e.params:
            if isinstance(p, material.Sampler2D):
                objs.append((p, ['minfilter', 'magfilter'], lambda: 'LINEAR'))
    for o, names, val in objs:
        for a in names:
            setattr(o, a, None)
    doc.save()
    for o, names, val in objs:
        order = list(names)
        r.shuffle(order)
        for a in order:
            if r.random() < 0.8:
                setattr(o, a, val())
                doc.save()
    return 'optional-children-exercise(%d objects)' % len(objs)


def recount(data):
    """bookkeeping of a written document recounted from its data: returns list of problems"""
    root = ET.fromstring(data)
    bad = []
    ids = [e.get('id') for e in root.iter() if e.get('id') is not None]
    dup = sorted(set(i for i in ids if ids.count(i) > 1))
    if dup:
        bad.append('duplicate ids %s' % dup[:4])
    for src in root.iter(NS + 'source'):
        arr = None
        for t in ('float_array', 'IDREF_array', 'Name_array'):
            arr = src.find(NS + t) if arr is None else arr
        acc = src.find(NS + 'technique_common/' + NS + 'accessor')
        if arr is None or acc is None:
            continue
        n = len((arr.text or '').split())
        if int(arr.get('count')) != n:
            bad.append('array %s count=%s but %d values' % (arr.get('id'), arr.get('count'), n))
        stride = int(acc.get('stride', '1'))
        params = len(acc.findall(NS + 'param'))
        if stride < params:
            bad.append('accessor of %s: stride %d < %d params' % (src.get('id'), stride, params))
        if int(acc.get('count')) * stride != n:
            bad.append('accessor of %s: count %s x stride %d != %d values' % (src.get('id'), acc.get('count'), stride, n))
        if acc.get('source') != '#' + (arr.get('id') or ''):
            bad.append('accessor of %s points at %s, array id is %s' % (src.get('id'), acc.get('source'), arr.get('id')))
    for mesh in root.iter(NS + 'mesh'):
        vids = set(v.get('id') for v in mesh.findall(NS + 'vertices'))
        sids = set(s.get('id') for s in mesh.findall(NS + 'source'))
        for v in mesh.findall(NS + 'vertices'):
            for i in v.findall(NS + 'input'):
                if i.get('source')[1:] not in sids:
                    bad.append('<vertices> input %s refers to no source of the mesh' % i.get('source'))
        for p in mesh:
            kind = p.tag[len(NS):]
            if kind not in ('triangles', 'lines', 'polylist', 'polygons', 'tristrips', 'trifans'):
                continue
            ins = p.findall(NS + 'input')
            stride = max(int(i.get('offset')) for i in ins) + 1
            for i in ins:
                tgt = i.get('source')[1:]
                if i.get('semantic') == 'VERTEX' and tgt not in vids:
                    bad.append('VERTEX input of <%s> points at %s, not at <vertices>' % (kind, i.get('source')))
                if i.get('semantic') != 'VERTEX' and tgt not in sids:
                    bad.append('%s input of <%s> refers to no source of the mesh: %s' % (i.get('semantic'), kind, i.get('source')))
            count = int(p.get('count'))
            ps = p.findall(NS + 'p')
            total = sum(len((x.text or '').split()) for x in ps)
            if kind == 'triangles' and total != count * 3 * stride:
                bad.append('<triangles count=%d>: %d indices for stride %d' % (count, total, stride))
            if kind == 'lines' and total != count * 2 * stride:
                bad.append('<lines count=%d>: %d indices for stride %d' % (count, total, stride))
            if kind == 'polylist':
                vc = [int(t) for t in (p.find(NS + 'vcount').text or '').split()]
                if len(vc) != count:
                    bad.append('<polylist count=%d> has %d vcount entries' % (count, len(vc)))
                if sum(vc) * stride != total:
                    bad.append('<polylist>: vcount total %d x stride %d != %d indices' % (sum(vc), stride, total))
            if kind == 'polygons' and len(ps) != count:
                bad.append('<polygons count=%d> has %d <p>' % (count, len(ps)))
    return bad


def build_case(kind, seed, nops):
    """a schema-respecting model: constructed, or a shipped schema-valid document, plus schema-respecting edits"""
    import collada
    pre = []
    if kind == 'constructed':
        gen = modelgen.Gen(seed, dict(schema=True, need_geom=True))
        doc = gen.build()
    elif kind == 'reloaded':
        # a schema-valid file as other tools write it: <scene> is optional, top-level <extra> elements come last
        import re
        r0 = random.Random('c04r/%s' % seed)
        gen = modelgen.Gen(seed, dict(schema=True, need_geom=True))
        b = io.BytesIO()
        gen.build().write(b)
        data = b.getvalue()
        if r0.random() < 0.6:
            data = re.sub(rb'<scene>.*?</scene>|<scene\s*/>', b'', data, flags=re.S)
            pre.append('file:no-scene')
        if r0.random() < 0.7:
            data = data.replace(b'</COLLADA>', b'<extra><technique profile="TOOL"><note>x</note></technique></extra>' * r0.randint(1, 2) + b'</COLLADA>')
            pre.append('file:top-level-extra')
        if r0.random() < 0.4:
            # every parameter of a shader is optional: other tools write <lambert/> for an effect that sets none
            root = ET.fromstring(data)
            nsq = root.tag.split('}')[0] + '}'
            shaders = [s_ for t in root.iter(nsq + 'technique') for s_ in t if s_.tag.split('}')[1] in ('phong', 'lambert', 'blinn', 'constant')]
            if shaders:
                s_ = r0.choice(shaders)
                for ch in list(s_):
                    s_.remove(ch)
                pre.append('file:empty-shader')
                data = ET.tostring(root)
        if r0.random() < 0.4:
            # <instance_material> and <bind_material> as other tools write them: with an <extra> after the bindings
            root = ET.fromstring(data)
            nsq = root.tag.split('}')[0] + '}'
            ims = list(root.iter(nsq + 'instance_material'))
            for im in ims:
                if r0.random() < 0.6:
                    ex = ET.SubElement(im, nsq + 'extra')
                    ET.SubElement(ex, nsq + 'technique', profile='TOOL')
            if ims:
                pre.append('file:instance-material-extra')
                data = ET.tostring(root)
        mesh_extra = None
        if r0.random() < 0.5:
            # a mesh that carries an <extra> and (sometimes) no primitive at all; a primitive is added after loading
            root = ET.fromstring(data)
            nsq = root.tag.split('}')[0] + '}'
            meshes = list(root.iter(nsq + 'mesh'))
            if meshes:
                m = r0.choice(meshes)
                if r0.random() < 0.6:
                    for ch in list(m):
                        if ch.tag.split('}')[1] in ('triangles', 'lines', 'polylist', 'polygons'):
                            m.remove(ch)
                    pre.append('file:mesh-without-primitives')
                ex = ET.SubElement(m, nsq + 'extra')
                ET.SubElement(ex, nsq + 'technique', profile='TOOL')
                pre.append('file:mesh-extra')
                parent = dict((c, p) for p in root.iter() for c in p)
                mesh_extra = parent[m].get('id')
                data = ET.tostring(root)
        doc = collada.Collada(io.BytesIO(data))
        gen.doc = doc
        if mesh_extra is not None and mesh_extra in doc.geometries:
            g = doc.geometries[mesh_extra]
            pos = [k for k, v in g.sourceById.items() if isinstance(v, dict)]
            if pos:
                from collada import source as _source
                il = _source.InputList()
                il.addInput(0, 'VERTEX', '#' + pos[0])
                nrows = len(g.sourceById[pos[0]]['POSITION'].data)
                if nrows:
                    try:
                        g.primitives.append(g.createLineSet(numpy.array([0, nrows - 1], dtype=numpy.int32), il, None))
                        pre.append('prims:append-lines')
                    except collada.common.DaeError as ex:     # the positions of this mesh are not X Y Z: the API refuses the edit
                        core.note_skip('c04:append-lines', ex)
    else:
        doc = collada.Collada(os.path.join(DATA, kind))
        gen = modelgen.Gen(seed, dict(schema=True))
        gen.doc = doc
    hist = list(pre)
    # edits aimed at what the file was given: bindings of the instance_materials that carry an <extra>, the effect with the empty shader
    aimed = (['matinputs', 'matinputs', 'matbind'] if 'file:instance-material-extra' in pre else []) + (['attr'] * 3 if 'file:empty-shader' in pre else [])
    for i in range(nops + len(aimed)):
        try:
            d = editgen.apply(doc, seed, i, gen, [aimed[i - nops]] if i >= nops else None)
        except Exception as e:
            core.note_skip('c04:edit', e)
            return None, hist
        if d:
            hist.append(d)
    if pre and doc.scene is None and len(doc.scenes) and seed % 2 == 0:
        doc.scene = doc.scenes[0]
        hist.append('default_scene:set')
    if seed % 3 == 0:
        hist.append(optional_children_exercise(doc, random.Random('c04o/%s' % seed)))
    schema_respecting(doc)
    return doc, hist


def child_lines(data):
    """emitter correspondence: for elements whose emission the Lean model describes, parameters -> expected child names"""
    root = ET.fromstring(data)
    lines, actual = [], []
    for mesh in root.iter(NS + 'mesh'):
        kids = [c.tag[len(NS):] for c in mesh]
        ns = kids.count('source')
        prims = [k for k in kids if k in ('triangles', 'lines', 'polylist', 'polygons')]
        ne = kids.count('extra')
        lines.append('emit mesh %d %d ; %s' % (ns, ne, ' '.join(prims)))
        actual.append(' '.join(kids))
    for node in root.iter(NS + 'node'):
        kids = [c.tag[len(NS):] for c in node]
        ts = [k for k in kids if k in ('lookat', 'matrix', 'rotate', 'scale', 'translate')]
        cs = [k for k in kids if k not in ('lookat', 'matrix', 'rotate', 'scale', 'translate')]
        lines.append('emit node ; %s ; %s' % (' '.join(ts), ' '.join(cs)))
        actual.append(' '.join(kids))
    for src in root.iter(NS + 'source'):
        if src.find(NS + 'technique_common') is not None:
            kids = [c.tag[len(NS):] for c in src]
            lines.append('emit source %s' % kids[0])
            actual.append(' '.join(kids))
    return lines, actual


def instmat_case(rng):
    """the real MaterialNode.save on an <instance_material> loaded with `bind`s, vertex input bindings and extras, after its inputs were edited.
    Returns (sync request for drv/C02, expected names by the request's labels, names written)"""
    import collada
    nb, ni, ne = rng.choice([0, 0, 1, 2]), rng.randint(0, 3), rng.choice([0, 1, 1, 2])
    kids = ''.join('<bind semantic="S%d" target="n/t"/>' % i for i in range(nb)) \
        + ''.join('<bind_vertex_input semantic="UV%d" input_semantic="TEXCOORD" input_set="%d"/>' % (i, i) for i in range(ni)) \
        + '<extra><technique profile="T"><a>1</a></technique></extra>' * ne
    xml = ('<COLLADA xmlns="%s" version="1.4.1"><asset><created>2001-01-01T00:00:00</created><modified>2001-01-01T00:00:00</modified></asset>'
           '<library_effects><effect id="fx"><profile_COMMON><technique sid="common"><phong/></technique></profile_COMMON></effect></library_effects>'
           '<library_materials><material id="mat"><instance_effect url="#fx"/></material></library_materials>'
           '<library_geometries><geometry id="g"><mesh><source id="p"><float_array id="pa" count="9">0 0 0 1 0 0 0 1 0</float_array><technique_common>'
           '<accessor source="#pa" count="3" stride="3"><param name="X" type="float"/><param name="Y" type="float"/><param name="Z" type="float"/></accessor>'
           '</technique_common></source><vertices id="v"><input semantic="POSITION" source="#p"/></vertices><triangles count="1" material="m">'
           '<input semantic="VERTEX" source="#v" offset="0"/><p>0 1 2</p></triangles></mesh></geometry></library_geometries>'
           '<library_visual_scenes><visual_scene id="vs"><node id="n"><instance_geometry url="#g"><bind_material><technique_common>'
           '<instance_material symbol="m" target="#mat">%s</instance_material></technique_common></bind_material></instance_geometry></node>'
           '</visual_scene></library_visual_scenes><scene><instance_visual_scene url="#vs"/></scene></COLLADA>' % (NS[1:-1], kids))
    doc = collada.Collada(io.BytesIO(xml.encode()))
    mn = doc.scene.nodes[0].children[0].materials[0]
    how = rng.choice(['keep', 'append', 'insert', 'clear', 'replace', 'pop'])
    if how == 'append':
        mn.inputs.append(('NEW', 'TEXCOORD', '7'))
    elif how == 'insert':
        mn.inputs.insert(0, ('NEW0', 'TEXCOORD', '8'))
    elif how == 'clear':
        del mn.inputs[:]
    elif how == 'replace':
        mn.inputs = [('R%d' % i, 'TEXCOORD', str(i)) for i in range(rng.randint(0, 3))]
    elif how == 'pop' and mn.inputs:
        mn.inputs.pop()
    changed = [tuple(i) for i in mn.inputs] != [('UV%d' % i, 'TEXCOORD', str(i)) for i in range(ni)]
    doc.save()
    im = next(doc.xmlnode.getroot().iter(NS + 'instance_material'))
    got = [c.tag[len(NS):] for c in im]
    B, I, E = list(range(1, nb + 1)), list(range(20, 20 + ni)), list(range(40, 40 + ne))
    W = list(range(60, 60 + len(mn.inputs))) if changed else I
    label = dict([(b, 'bind') for b in B] + [(i, 'bind_vertex_input') for i in I + W] + [(e, 'extra') for e in E])
    line = 'sync %s ; %s ; %s ; %s' % (' '.join(map(str, I + W)) or '0', ' '.join(map(str, W)), ' '.join(map(str, B + I + E)), E[0] if E else '_')
    return line, label, got, how


SHADER_ORDER = ['emission', 'ambient', 'diffuse', 'specular', 'shininess', 'reflective', 'reflectivity', 'transparent', 'transparency', 'index_of_refraction']
SCALARS = ('shininess', 'reflectivity', 'transparency', 'index_of_refraction')


class ShaderOrder(Exception):
    pass


def technique_ok(a):
    """child names in the order the schema asks for: (asset), images / newparams, ONE shader element, extras"""
    kids = a.split()
    shad = [k for k in kids if k in ('constant', 'lambert', 'phong', 'blinn')]
    return len(shad) == 1 and kids == sorted(kids, key=lambda k: 0 if k == 'asset' else 1 if k in ('image', 'newparam') else 3 if k == 'extra' else 2)


def technique_case(rng):
    """the real Effect.save on an effect loaded with the given `<technique>` children, after its shading type was set: (line, children written)"""
    import collada
    shaders = ['constant', 'lambert', 'phong', 'blinn']
    kids = (['asset'] if rng.random() < 0.3 else []) + [rng.choice(['image', 'newparam']) for _ in range(rng.randint(0, 3))] \
        + [rng.choice(shaders)] + ['extra'] * rng.choice([0, 0, 1, 2, 3])
    s = rng.choice(shaders)
    body = ''
    for n, k in enumerate(kids):
        if k == 'asset':
            body += '<asset><created>2001-01-01T00:00:00</created><modified>2001-01-01T00:00:00</modified></asset>'
        elif k == 'image':
            body += '<image id="ti%d"><init_from>x.png</init_from></image>' % n
        elif k == 'newparam':
            body += '<newparam sid="tp%d"><float>1</float></newparam>' % n
        elif k == 'extra':
            body += '<extra><technique profile="X"><a>1</a></technique></extra>'
        elif rng.random() < 0.4:
            body += '<%s/>' % k          # every parameter of a shader is optional
        else:
            have = [q for q in SHADER_ORDER if q in modelgen.SHADER_PARAMS[k] and rng.random() < 0.5]
            body += '<%s>%s</%s>' % (k, ''.join('<%s>%s</%s>' % (q, '<float>0.5</float>' if q in SCALARS else '<color>0 0 0 1</color>', q) for q in have), k)
    xml = ('<COLLADA xmlns="%s" version="1.4.1"><asset><created>2001-01-01T00:00:00</created><modified>2001-01-01T00:00:00</modified></asset>'
           '<library_effects><effect id="fx"><profile_COMMON><technique sid="common">%s</technique></profile_COMMON></effect></library_effects></COLLADA>'
           % (NS[1:-1], body))
    d = collada.Collada(io.BytesIO(xml.encode()))
    e = d.effects[0]
    e.shadingtype = s
    # values given and taken away after loading, within what the new shader has
    for q in modelgen.SHADER_PARAMS[s]:
        if rng.random() < 0.4:
            setattr(e, q, rng.choice([None, 0.25 if q in SCALARS else (0.5, 0.25, 0.5, 1.0)]))
    for q in SHADER_ORDER:
        if q not in modelgen.SHADER_PARAMS[s]:
            setattr(e, q, None)
    e.save()
    t = e.xmlnode.find(NS + 'profile_COMMON').find(NS + 'technique')
    sh = [c for c in t if c.tag[len(NS):] == s]
    if len(sh) == 1:
        got = [c.tag[len(NS):] for c in sh[0]]
        want = [q for q in SHADER_ORDER if getattr(e, q) is not None]
        if got != want:
            raise ShaderOrder('after Effect.save the <%s> element holds %s; the parameters that have a value are, in schema order, %s' % (s, got, want))
    return 'tech %s ; %s' % (s, ' '.join(kids)), ' '.join(c.tag[len(NS):] for c in t)


def run(ctx):
    ctx.rule = ('schema-respecting models: constructed in schema mode (NCName ids, RGBA colours, shader-specific parameters, node children in schema order, non-empty scenes) '
                'and shipped schema-valid documents, after 0-10 random edits re-normalised to the user-side constraints; each written document validated by Xerces and recounted; '
                'random element trees over the emitted vocabulary for the validator cross-check; non-trivial = document with a geometry and a scene; distinct by (base, seed, edits)')
    reported = set()
    docs, metas = [], []
    corpus = []
    for f in c02.CORPUS:
        ok = xsdval.validate([open(os.path.join(DATA, f), 'rb').read()])[0][0]
        ctx.count('corpus:%s' % ('schema-valid' if ok else 'not schema-valid'))
        if ok:
            corpus.append(f)
    bases = ['constructed'] * 3 + ['reloaded'] * 2 + corpus
    for i in range(ctx.n(220, 6000)):
        kind = bases[i % len(bases)]
        seed = ctx.rng.randrange(10 ** 9)
        nops = ctx.rng.choice([0, 0, 3, 6, 10])
        doc, hist = build_case(kind, seed, nops)
        if doc is None:
            continue
        b = io.BytesIO()
        try:
            doc.write(b)
        except Exception as e:
            sig = 'write:' + type(e).__name__
            if sig not in reported:
                reported.add(sig)
                ctx.violation('c04:' + sig, 'writing a schema-respecting model raised %s: %s (history %s)' % (type(e).__name__, str(e)[:120], hist), dict(kind='doc', base=kind, seed=seed, nops=nops))
            continue
        docs.append(b.getvalue())
        metas.append(dict(kind='doc', base=kind, seed=seed, nops=nops, hist=hist))
        ctx.case(dict(base=kind, seed=seed, nops=nops, hist=hist), nontrivial=len(doc.geometries) > 0 and len(doc.scenes) > 0)
        ctx.count('doc:' + ('corpus' if kind != 'constructed' else kind))
        pr = recount(b.getvalue())
        if pr:
            sig = 'bookkeeping:' + re.sub(r'[^a-zA-Z<> ]+', '', pr[0])[:40]
            if sig not in reported:
                reported.add(sig)
                ctx.violation('c04:' + sig, 'bookkeeping of the written document disagrees with its data: %s (history %s)' % (pr[:3], hist), dict(kind='doc', base=kind, seed=seed, nops=nops))
    for (ok, msg), m in zip(xsdval.validate(docs), metas):
        if not ok:
            el = re.findall(r"element '\{?\"?[^'\"]*\"?:?([A-Za-z_0-9]+)\}?'", msg)
            sig = 'invalid:' + (el[0] if el else re.sub(r'[^a-zA-Z.-]+', ' ', msg)[:40])
            if sig not in reported:
                reported.add(sig)
                ctx.violation('c04:' + sig, 'written document is not schema-valid: %s (base %s, history %s)' % (msg[:260], m['base'], m['hist']), {k: m[k] for k in ('kind', 'base', 'seed', 'nops')})
    # correspondences with the Lean side
    if ctx.lean_ok:
        from props import c04_trees
        c04_trees.run(ctx, docs[:ctx.n(60, 800)], child_lines, reported)
        # MaterialNode.save and the place of the vertex input bindings (C02.sync_block, C04c.instance_material_valid)
        il, ilab, igot, ikey = [], [], [], []
        for i in range(ctx.n(120, 2500)):
            key = 'c04i/%s/%d' % (ctx.rng.randrange(10 ** 9), i)
            try:
                l, lab, got, how = instmat_case(random.Random(key))
            except Exception as e:
                core.note_skip('c04:instmat-case', e)
                continue
            ctx.count('emit:instance_material:' + how)
            order = sorted(got, key=lambda k: ('bind', 'bind_vertex_input', 'extra').index(k) if k in ('bind', 'bind_vertex_input', 'extra') else 9)
            if got != order and 'instmat-order' not in reported:
                reported.add('instmat-order')
                ctx.violation('c04:invalid:instance_material-order', 'after the inputs of a loaded material binding were edited (%s) MaterialNode.save leaves the children %s in '
                              '<instance_material>; the schema asks for bind*, bind_vertex_input*, extra*' % (how, got), dict(kind='instmat', key=key))
            il.append(l); ilab.append(lab); igot.append(got); ikey.append(key)
        for l, lab, got, key, m in zip(il, ilab, igot, ikey, ctx.driver('C02', il) if il else []):
            names = [lab.get(int(x), '?') for x in m.split()]
            if names != got and 'corr:instmat' not in reported and 'instmat-order' not in reported:
                reported.add('corr:instmat')
                ctx.violation('corr:instmat', 'MaterialNode.save leaves %s in <instance_material>, Pyc.Sync.syncChildren on %r gives %s' % (got, l, names),
                              dict(kind='instmat', key=key), found_input=False)
        # Effect.save and the place of the shader element (Pyc.Schema.saveTechnique, Props/C04c.save_technique_valid)
        tl, ta, tk = [], [], []
        for i in range(ctx.n(150, 3000)):
            key = 'c04t/%s/%d' % (ctx.rng.randrange(10 ** 9), i)
            try:
                l, a = technique_case(random.Random(key))
            except ShaderOrder as e:
                if 'shader-order' not in reported:
                    reported.add('shader-order')
                    ctx.violation('c04:invalid:shader-parameter-order', str(e), dict(kind='technique', key=key))
                continue
            except Exception as e:
                core.note_skip('c04:technique-case', e)
                continue
            tl.append(l); ta.append(a); tk.append(key)
        for l, a, m, key in zip(tl, ta, ctx.driver('C04', tl) if tl else [], tk):
            ctx.count('emit:technique')
            if a != m and 'corr:technique' not in reported:
                reported.add('corr:technique')
                ok = technique_ok(a)
                ctx.violation('corr:technique', 'Effect.save: children of <technique> for %r are %r, Pyc.Schema.saveTechnique gives %r%s'
                              % (l, a, m, '' if ok else ' — and what was written is not the order the schema asks for (asset, images/newparams, ONE shader, extras)'),
                              dict(kind='technique', line=l, key=key), found_input=not ok)


def replay(ctx, rep):
    if rep.get('kind') == 'instmat':
        l, lab, got, how = instmat_case(random.Random(rep['key']))
        print('  after %s: children of <instance_material>: %s' % (how, got))
        return got != sorted(got, key=lambda k: ('bind', 'bind_vertex_input', 'extra').index(k) if k in ('bind', 'bind_vertex_input', 'extra') else 9)
    if rep.get('kind') == 'technique':
        try:
            l, a = technique_case(random.Random(rep['key']))
        except ShaderOrder as e:
            print('  %s' % e)
            return True
        print('  Effect.save on %r writes the <technique> children %r' % (l, a))
        return not technique_ok(a)
    doc, hist = build_case(rep['base'], rep['seed'], rep['nops'])
    b = io.BytesIO()
    try:
        doc.write(b)
    except Exception as e:
        print('  write raised %s' % type(e).__name__)
        return True
    ok, msg = xsdval.validate([b.getvalue()])[0]
    pr = recount(b.getvalue())
    if not ok:
        print('  ' + msg[:300])
    if pr:
        print('  %s' % pr[:3])
    return (not ok) or bool(pr)
