"""C20 — documents are isolated from one another.

Theorems (lean/Pyc/Props/C20.lean): for systems whose operations have the frame type
`DocState -> DocState x Out`, every schedule projects onto solo runs.  Whether the real operations
have that type is what this file checks on every run:

 (a) module-state monitor: deep snapshot of every `collada.*` module's globals, class attributes,
     function defaults and xml.etree.ElementTree._namespace_map after every operation: no writes;
 (b) object-graph disjointness: mutable objects reachable from two documents are disjoint;
 (c) sequential interleavings at operation granularity of new / load / failed load / ignoreErrors /
     library edits / write over mixed-namespace, valid and damaged documents with different ignore
     masks.  Each document's outputs and deep snapshots are compared with a SOLO run of the same
     operations made in a pristine process (fork of a zygote that never touched a document), and
     its public observables (namespace of its tag function / of the written root, maskedErrors
     classes, errors classes, ids per library) with the projection computed by the Lean machine
     (lean/drv/C20.lean);
 (d) thorough tier: real threads on distinct documents (sys.setswitchinterval(1e-6), barrier)
     compared with the pristine solo runs.

Per-document outcomes (including exceptions, by class) are observables that must be EQUAL between
interleaved and solo runs; they are not required to be successes (saving a non-default-namespace
document fails on its own: that is C01's business).
"""
import datetime
import hashlib
import io
import json
import os
import pickle
import random
import re
import sys
import threading
import time
import traceback
import types
import zipfile
import xml.etree.ElementTree as ET
from urllib.parse import quote

from vlib import core

PID = 'C20'
META = dict(
    level_text=('Proof: Pyc/Props/C20.lean proves for every schedule (any interleaving of any number of operations on any set '
                'of documents) over operations of the frame type DocState -> DocState x Out that the state and outputs seen for '
                'each document equal those of handling it alone (schedule_projection, by induction over the schedule), that '
                'steps on distinct documents commute and leave the globals untouched, and shows by concrete witnesses that the '
                'statement fails for operations that read or write a shared global. That the real operations have the frame type '
                'is checked on every run: no write to any collada module/class attribute or to ElementTree\'s namespace map, '
                'disjoint mutable object graphs, and interleaved runs of load/failed load/ignore/edit/save on mixed-namespace, '
                'valid and damaged documents equal to solo runs made in a pristine forked process and to the projection of the '
                'Lean document machine; real threads in the thorough tier.'),
    level_note=('Trusted: Lean kernel; axioms propext/Quot.sound/Classical.choice only; the hand-written machine Pyc/Model/Isolation.lean '
                'and the schedule generator, snapshot and module-state monitor of props/c20.py. Interleavings finer than one operation '
                'are covered only by "no shared mutable state" plus the thread soak; races inside numpy, ElementTree, zipfile and GIL '
                'release points cannot be exhibited by the model.'),
    technique='Lean 4 frame/projection theorem over all schedules + module-state monitor, object-graph disjointness and interleaved-vs-pristine-solo differential runs on pycollada',
)
LEAN_MODULES = ['Pyc.Model.Isolation', 'Pyc.Basic.Proto']

NS14 = 'http://www.collada.org/2005/11/COLLADASchema'
NS15 = 'http://www.collada.org/2008/03/COLLADASchema'
LIBS = ['images', 'effects', 'materials', 'animations', 'geometries', 'controllers', 'lights', 'cameras', 'nodes', 'scenes']
LIBTAG = dict(images=('library_images', 'image'), effects=('library_effects', 'effect'),
              materials=('library_materials', 'material'), animations=('library_animations', 'animation'),
              geometries=('library_geometries', 'geometry'), controllers=('library_controllers', 'controller'),
              lights=('library_lights', 'light'), cameras=('library_cameras', 'camera'),
              nodes=('library_nodes', 'node'), scenes=('library_visual_scenes', 'visual_scene'))
ERRS = ['DaeError', 'DaeIncompleteError', 'DaeBrokenRefError', 'DaeMalformedError', 'DaeUnsupportedError']
MASKS = [None, None, [], ['DaeError'], ['DaeError'], ['DaeBrokenRefError'], ['DaeIncompleteError', 'DaeMalformedError'],
         ['DaeUnsupportedError'], ['DaeIncompleteError', 'DaeUnsupportedError', 'DaeMalformedError', 'DaeBrokenRefError'],
         ['DaeMalformedError', 'DaeMalformedError']]
FILES = ['duck_triangles.dae', 'duck_polylist.dae', 'duck.zip', 'trifans.dae', 'tristrips.dae', 'empty_triangles.dae',
         'empty_triangles_with_multiple_ns.dae', 'wam.dae', 'wam.zae', 'cube_tristrips.dae', 'earthCylindrical.DAE']
GEN_LIBS = ['images', 'effects', 'materials', 'animations', 'geometries', 'lights', 'cameras', 'nodes', 'scenes']

# ----------------------------------------------------------------------------- generated documents

VALID = dict(
    images='<{p}image id="{id}"><{p}init_from>./{id}.png</{p}init_from></{p}image>',
    effects=('<{p}effect id="{id}"><{p}profile_COMMON><{p}technique sid="common"><{p}phong><{p}diffuse><{p}color>0.5 0.25 0.5 1</{p}color>'
             '</{p}diffuse></{p}phong></{p}technique></{p}profile_COMMON></{p}effect>'),
    materials='<{p}material id="{id}" name="{id}"><{p}instance_effect url="#fxbase"/></{p}material>',
    # an animation keeps the sources it declares in a dict of its own (`sourceById`)
    animations=('<{p}animation id="{id}"><{p}source id="{id}-t"><{p}float_array id="{id}-ta" count="2">0 1</{p}float_array><{p}technique_common>'
                '<{p}accessor source="#{id}-ta" count="2" stride="1"><{p}param name="TIME" type="float"/></{p}accessor></{p}technique_common>'
                '</{p}source></{p}animation>'),
    geometries=('<{p}geometry id="{id}"><{p}mesh><{p}source id="{id}-p"><{p}float_array id="{id}-pa" count="9">0 0 0 1 0 0 0 1 0</{p}float_array>'
                '<{p}technique_common><{p}accessor source="#{id}-pa" count="3" stride="3"><{p}param name="X" type="float"/>'
                '<{p}param name="Y" type="float"/><{p}param name="Z" type="float"/></{p}accessor></{p}technique_common></{p}source>'
                '<{p}vertices id="{id}-v"><{p}input semantic="POSITION" source="#{id}-p"/></{p}vertices>'
                '<{p}triangles count="1" material="m"><{p}input semantic="VERTEX" source="#{id}-v" offset="0"/><{p}p>{perm}</{p}p></{p}triangles>'
                '<{p}polylist count="2" material="m"><{p}input semantic="VERTEX" source="#{id}-v" offset="0"/><{p}vcount>3 3</{p}vcount>'
                '<{p}p>{perm} 0 1 2</{p}p></{p}polylist>'
                # the same index text read as two triangles and as three lines (byte-identical <p> in different documents is common, too)
                '{extra2}'
                '</{p}mesh></{p}geometry>'),
    lights='<{p}light id="{id}"><{p}technique_common><{p}point><{p}color>1 0.5 0.25</{p}color></{p}point></{p}technique_common></{p}light>',
    cameras=('<{p}camera id="{id}"><{p}optics><{p}technique_common><{p}perspective><{p}xfov>45</{p}xfov><{p}znear>1</{p}znear>'
             '<{p}zfar>10</{p}zfar></{p}perspective></{p}technique_common></{p}optics></{p}camera>'),
    nodes='<{p}node id="{id}"><{p}translate>1 2 3</{p}translate><{p}lookat>1 2 3 0 0 0 0 1 0</{p}lookat></{p}node>',
    # every document uses the same id for the root it instantiates: ids are per document (and per visual scene)
    scenes=('<{p}visual_scene id="{id}"><{p}node id="root"><{p}translate>{perm}</{p}translate></{p}node>'
            '<{p}node id="{id}-n"><{p}instance_node url="#root"/></{p}node></{p}visual_scene>'),
)
# templates whose loader raises exactly this DaeError subclass and drops the item (probed on the real loaders)
FAULT = {
    ('images', 'DaeIncompleteError'): '<{p}image id="{id}"/>',
    ('effects', 'DaeUnsupportedError'): '<{p}effect id="{id}"/>',
    ('effects', 'DaeIncompleteError'): '<{p}effect id="{id}"><{p}profile_COMMON><{p}technique sid="c"><{p}foo/></{p}technique></{p}profile_COMMON></{p}effect>',
    ('effects', 'DaeMalformedError'): ('<{p}effect id="{id}"><{p}profile_COMMON><{p}technique sid="c"><{p}phong><{p}diffuse><{p}color>a b c d</{p}color>'
                                       '</{p}diffuse></{p}phong></{p}technique></{p}profile_COMMON></{p}effect>'),
    ('materials', 'DaeIncompleteError'): '<{p}material id="{id}"/>',
    ('materials', 'DaeBrokenRefError'): '<{p}material id="{id}"><{p}instance_effect url="#no-such-effect"/></{p}material>',
    ('cameras', 'DaeIncompleteError'): '<{p}camera id="{id}"/>',
    ('cameras', 'DaeUnsupportedError'): '<{p}camera id="{id}"><{p}optics><{p}technique_common><{p}foo/></{p}technique_common></{p}optics></{p}camera>',
    ('cameras', 'DaeMalformedError'): ('<{p}camera id="{id}"><{p}optics><{p}technique_common><{p}perspective><{p}xfov>abc</{p}xfov><{p}znear>1</{p}znear>'
                                       '<{p}zfar>10</{p}zfar></{p}perspective></{p}technique_common></{p}optics></{p}camera>'),
    ('lights', 'DaeIncompleteError'): '<{p}light id="{id}"><{p}technique_common/></{p}light>',
    ('lights', 'DaeUnsupportedError'): '<{p}light id="{id}"><{p}technique_common><{p}foo/></{p}technique_common></{p}light>',
    ('lights', 'DaeMalformedError'): '<{p}light id="{id}"><{p}technique_common><{p}directional><{p}color>a b c</{p}color></{p}directional></{p}technique_common></{p}light>',
    ('geometries', 'DaeMalformedError'): ('<{p}geometry id="{id}"><{p}mesh><{p}source id="{id}-p"><{p}float_array id="{id}-pa" count="3">a b c</{p}float_array>'
                                          '<{p}technique_common><{p}accessor source="#{id}-pa" count="1" stride="3"><{p}param name="X" type="float"/>'
                                          '<{p}param name="Y" type="float"/><{p}param name="Z" type="float"/></{p}accessor></{p}technique_common></{p}source>'
                                          '<{p}vertices id="{id}-v"><{p}input semantic="POSITION" source="#{id}-p"/></{p}vertices></{p}mesh></{p}geometry>'),
}
# a fault the loader REPORTS through handleError and then goes on with the same item (kept when the class is masked): an input of unknown semantic
FAULT[('geometries', 'DaeUnsupportedError~')] = VALID['geometries'].replace(
    '<{p}input semantic="VERTEX" source="#{id}-v" offset="0"/><{p}p>{perm}</{p}p></{p}triangles>',
    '<{p}input semantic="VERTEX" source="#{id}-v" offset="0"/><{p}input semantic="WEIGHT_MAP" source="#{id}-p" offset="0"/><{p}p>{perm}</{p}p></{p}triangles>')
# … and a transform without numbers in a NESTED node: reported by the outer node's loader (the exception travels up through Node.load), which keeps its node
FAULT[('nodes', 'DaeMalformedError~')] = '<{p}node id="{id}"><{p}node id="{id}-in"><{p}translate>a b c</{p}translate></{p}node></{p}node>'
FAULTS_OF = {}
for (_l, _c) in FAULT:
    FAULTS_OF.setdefault(_l, []).append(_c)
FOREIGN = 'urn:x-foreign'
PERMS = ['0 1 2', '0 2 1', '1 0 2', '1 2 0', '2 0 1', '2 1 0']


def render(spec):
    """XML bytes of a generated document spec {ns, libs:[lib...], items:[[lib,id,ens,fault]...], fatal}"""
    ns = spec['ns']
    out = ['<?xml version="1.0" encoding="UTF-8"?>\n<COLLADA xmlns="%s" xmlns:f="%s" version="1.4.1">' % (ns, FOREIGN),
           '<asset><created>2020-01-01T00:00:00</created><modified>2020-01-01T00:00:00</modified><up_axis>Y_UP</up_axis></asset>']
    for lib in spec['libs']:
        out.append('<%s>' % LIBTAG[lib][0])
        for l, id_, ens, fault in spec['items']:
            if l != lib:
                continue
            tmpl = VALID[l] if fault is None else FAULT[(l, fault)]
            pf = '' if ens == ns else 'f:'
            # one index text (the same in many documents: it only depends on the order below) read as two triangles and as three lines, in either order
            two = [x.format(p=pf, id=id_) for x in
                   ('<{p}triangles count="2" material="m"><{p}input semantic="VERTEX" source="#{id}-v" offset="0"/><{p}p>0 1 2 2 1 0</{p}p></{p}triangles>',
                    '<{p}lines count="3" material="m"><{p}input semantic="VERTEX" source="#{id}-v" offset="0"/><{p}p>0 1 2 2 1 0</{p}p></{p}lines>')]
            if sum(id_.encode()) % 2:
                two.reverse()
            if sum(id_.encode()) % 3 == 0:
                # a triangle without area comes first (its normal is 0/0: NaN, quietly)
                two.insert(0, '<{p}triangles count="1"><{p}input semantic="VERTEX" source="#{id}-v" offset="0"/><{p}p>0 0 1</{p}p></{p}triangles>'.format(p=pf, id=id_))
            # a primitive without items (blank <p>), of a kind that depends on the id: what a blank index list parses to is per primitive
            h = sum(id_.encode()) % 4
            if h:
                two.append(('<{p}triangles count="0"><{p}input semantic="VERTEX" source="#{id}-v" offset="0"/><{p}p></{p}p></{p}triangles>',
                            '<{p}lines count="0"><{p}input semantic="VERTEX" source="#{id}-v" offset="0"/><{p}p> </{p}p></{p}lines>',
                            '<{p}polylist count="0"><{p}input semantic="VERTEX" source="#{id}-v" offset="0"/><{p}vcount></{p}vcount><{p}p></{p}p></{p}polylist>'
                            )[h - 1].format(p=pf, id=id_))
            out.append(tmpl.format(p=pf, id=id_, perm=PERMS[sum(id_.encode()) % 6], extra2=''.join(two)))
        out.append('</%s>' % LIBTAG[lib][0])
    out.append('<scene/></COLLADA>')
    data = '\n'.join(out).encode()
    if spec.get('fatal') == 'truncate':
        data = data[:max(20, (len(data) * 3) // 5)]
    elif spec.get('fatal') == 'garbage':
        data = b'this is not xml <<<'
    return data


def gen_doc(rng):
    r = rng.random()
    ns = NS14 if r < 0.4 else NS15 if r < 0.6 else rng.choice(['urn:x-%04x' % rng.randrange(1 << 16),
                                                                 'http://example.org/%04x/COLLADASchema' % rng.randrange(1 << 16)])
    libs = [l for l in GEN_LIBS if rng.random() < 0.55]
    rng.shuffle(libs)
    items = []
    damaged = rng.random() < 0.4
    n = 0
    for lib in libs:
        for _ in range(rng.randint(0, 3)):
            n += 1
            id_ = '%s%d' % (lib[:2], n)
            ens = FOREIGN if rng.random() < 0.08 else ns
            fault = None
            if lib in FAULTS_OF and (rng.random() < (0.35 if damaged else 0.0) or ens == FOREIGN and rng.random() < 0.5):
                fault = rng.choice(FAULTS_OF[lib])
            items.append([lib, id_, ens, fault])
    if any(l == 'materials' and f is None for l, _, _, f in items):
        if 'effects' not in libs:
            libs.insert(rng.randrange(len(libs) + 1), 'effects')
        items.insert(0, ['effects', 'fxbase', ns, None])
    fatal = None
    if rng.random() < 0.07:
        fatal = rng.choice(['truncate', 'garbage'])
    return dict(kind='gen', ns=ns, libs=libs, items=items, fatal=fatal)


_BYTES = {}


def doc_bytes(spec):
    if spec['kind'] == 'gen':
        return render(spec)
    name = spec['name']
    if name not in _BYTES:
        with open(os.path.join(core.REPO, 'collada', 'tests', 'data', name), 'rb') as f:
            _BYTES[name] = f.read()
    return _BYTES[name]


def split_tag(t):
    if isinstance(t, str) and t.startswith('{'):
        ns, _, local = t[1:].partition('}')
        return ns, local
    return '', t


def file_items(spec):
    """independent reading (etree only) of a test-data file: root namespace and (lib, id, ens) of the library
    children the loaders look at.  None when the file is not modelled (it does not load cleanly on its own)"""
    if spec['name'] in ('cube_tristrips.dae', 'earthCylindrical.DAE'):
        return None
    data = doc_bytes(spec)
    if data[:2] == b'PK':
        z = zipfile.ZipFile(io.BytesIO(data))
        names = [n for n in z.namelist() if n.upper().endswith('.DAE')]
        data = z.read(names[0])
    root = ET.fromstring(data)
    ns, _ = split_tag(root.tag)
    items = []
    for libel in root:
        lns, lname = split_tag(libel.tag)
        for lib in LIBS:
            if lname == LIBTAG[lib][0] and lns == ns:
                for ch in libel:
                    cns, cname = split_tag(ch.tag)
                    if cname != LIBTAG[lib][1]:
                        continue
                    if lib == 'geometries' and ch.find('{%s}mesh' % ns) is None:
                        continue
                    if lib == 'controllers' and ch.find('{%s}skin' % ns) is None and ch.find('{%s}morph' % ns) is None:
                        continue
                    items.append([lib, ch.get('id'), cns, None])
    return ns, items


# ----------------------------------------------------------------------------- protocol lines (model side)

def qid(s):
    return '~' if s is None else (quote(str(s), safe='') or '~~')


def model_line(i, op):
    k = op[0]
    if k == 'new':
        return '%d new' % i
    if k == 'load':
        spec, mask = op[1], op[2]
        m = ','.join(mask) if mask else '-'
        if spec['kind'] == 'gen':
            ns, items = spec['ns'], spec['items']
            fatal = 'DaeMalformedError' if spec.get('fatal') else '-'
        else:
            ns, items = file_items(spec)
            fatal = '-'
        its = ' '.join('%s|%s|%s|%s' % (l, qid(id_), ens or '-', f or '-') for l, id_, ens, f in items)
        return ('%d load %s %s %s %s' % (i, ns, fatal, m, its)).rstrip()
    if k == 'ignore':
        return '%d ignore %s' % (i, ','.join(op[1]) if op[1] else '-')
    if k in ('add', 'remove'):
        return '%d %s %s %s' % (i, k, op[1], qid(op[2]))
    if k in ('save', 'query', 'clear'):
        return '%d %s' % (i, k)
    if k == 'handle':
        return '%d handle %s' % (i, op[1])
    raise ValueError(op)


def modelled(case):
    """documents whose every load is of a modelled spec (see file_items); the others are left out of the
    model schedule, which is sound by Pyc.Props.C20.others_irrelevant"""
    bad = set()
    for i, op in case['sched']:
        if op[0] == 'load' and op[1]['kind'] == 'file' and file_items(op[1]) is None:
            bad.add(i)
    return [i for i in range(case['docs']) if i not in bad]


# ----------------------------------------------------------------------------- real side: operations

def sha(b):
    return hashlib.sha1(b).hexdigest()[:16]


_TIME_RE = re.compile(rb'(<(?:\{[^}]*\})?(?:\w+:)?(created|modified)>)[^<]*(</)')


def blank_times(b):
    return _TIME_RE.sub(rb'\1T\3', b)


class Slot(object):
    def __init__(self):
        self.doc = None
        self.blank = True      # created/modified are wall-clock values unless a generated file (which has an <asset>) was loaded


def err_class(name):
    import collada.common as cc
    return getattr(cc, name)


def make_object(doc, lib, id_):
    import numpy
    import collada
    from collada import light, camera, material, geometry, source, scene, animation
    if lib == 'lights':
        return light.PointLight(id_, (1.0, 0.5, 0.25))
    if lib == 'cameras':
        return camera.PerspectiveCamera(id_, 1.0, 100.0, xfov=45.0)
    if lib == 'effects':
        return material.Effect(id_, [], 'phong', diffuse=(0.5, 0.25, 0.5, 1.0))
    if lib == 'materials':
        return material.Material(id_, id_, material.Effect(id_ + '-fx', [], 'phong', diffuse=(0.5, 0.5, 0.5, 1.0)))
    if lib == 'geometries':
        src = source.FloatSource(id_ + '-p', numpy.array([0.0, 0, 0, 1, 0, 0, 0, 1, 0]), ('X', 'Y', 'Z'))
        g = geometry.Geometry(doc, id_, id_, [src])
        il = source.InputList()
        il.addInput(0, 'VERTEX', '#' + id_ + '-p')
        g.primitives.append(g.createTriangleSet(numpy.array([0, 1, 2]), il, 'm'))
        return g
    if lib in ('nodes', 'scenes'):
        # made the way callers usually make them: without the optional list arguments, the lists filled afterwards
        n = scene.Node(id_ if lib == 'nodes' else id_ + '-n')
        n.transforms.append(scene.TranslateTransform(1.0, 2.0, 3.0))
        if len(doc.geometries):
            inst = scene.GeometryNode(doc.geometries[0])
            if len(doc.materials):
                inst.materials.append(scene.MaterialNode('m', doc.materials[0], []))
            n.children.append(inst)
        return n if lib == 'nodes' else scene.Scene(id_, [n])
    if lib == 'images':
        return material.CImage(id_, './%s.png' % id_, doc)
    if lib == 'animations':
        return animation.Animation(id_, id_, {}, [])
    raise ValueError(lib)


_SHARED_MASKS = {}


def do_op(slot, op):
    """one operation on one document slot through the public API.  Returns (out, written bytes or None);
    every exception is an outcome, by class"""
    import collada
    k = op[0]
    written = None
    try:
        if k == 'new':
            slot.doc = collada.Collada()
            slot.blank = True
            return 'ok', None
        if k == 'load':
            spec, mask = op[1], op[2]
            # an application keeps ONE list object per ignore configuration and passes it to every document
            ignore = None if mask is None else _SHARED_MASKS.setdefault(tuple(mask), [err_class(c) for c in mask])
            try:
                d = collada.Collada(io.BytesIO(doc_bytes(spec)), ignore=ignore)
            except Exception as e:
                return 'fail:' + type(e).__name__, None
            slot.doc = d
            slot.blank = spec['kind'] != 'gen'
            return 'loaded', None
        if slot.doc is None:
            return 'nodoc', None
        d = slot.doc
        if k == 'ignore':
            d.ignoreErrors(*[err_class(c) for c in op[1]])
            return 'ok', None
        if k == 'clear':
            d.ignoreErrors(None)
            return 'ok', None
        if k == 'handle':
            # what CImage.data and the loaders do with an error they meet: record it through the document, re-raised unless masked
            E = err_class(op[1])
            try:
                try:
                    raise E('probe')
                except err_class('DaeError') as e:
                    d.handleError(e)
                return 'ok', None
            except err_class('DaeError') as e:
                return 'fail:' + type(e).__name__, None
        if k == 'add':
            L = getattr(d, op[1])
            if op[2] in L:
                return 'dup', None
            L.append(make_object(d, op[1], op[2]))
            return 'ok', None
        if k == 'remove':
            L = getattr(d, op[1])
            if op[2] not in L:
                return 'missing', None
            L.remove(L[op[2]])
            return 'ok', None
        if k == 'query':
            import warnings
            with warnings.catch_warnings():
                warnings.simplefilter('ignore')       # (a triangle without area: NaN normal and a RuntimeWarning, both expected)
                return 'ok', query(d).encode()
        if k == 'save':
            buf = io.BytesIO()
            d.write(buf)
            written = buf.getvalue()
            ns, local = split_tag(ET.fromstring(written).tag)
            return 'saved:' + ns, written
        raise ValueError(op)
    except ValueError:
        raise
    except Exception as e:
        return 'fail:' + type(e).__name__, written


def query(d):
    """read-only public queries; the text of what they return (arrays by digest, failures by class)"""
    import numpy
    out = []

    def arr(x):
        if isinstance(x, numpy.ndarray):
            return 'nd(%s,%s,%s)' % (x.dtype, x.shape, sha(x.tobytes()))
        return type(x).__name__

    def prim(p, tag):
        try:
            out.append('%s %s len=%d vi=%s v=%s' % (tag, type(p).__name__, len(p), arr(getattr(p, 'vertex_index', None)), arr(getattr(p, 'vertex', None))))
            out.append('%s inputs=%d' % (tag, len(p.getInputList().getList())))
            if hasattr(p, 'triangleset'):
                ts = p.triangleset()
                out.append('%s triangleset %s len=%d vi=%s' % (tag, type(ts).__name__, len(ts), arr(getattr(ts, 'vertex_index', None))))
            if len(p):
                out.append('%s first=%s' % (tag, arr(getattr(p[0], 'vertices', None))))
        except Exception as e:
            out.append('%s raised %s' % (tag, type(e).__name__))
    # building a new input list for this document (the documented first step of adding a primitive): what it accepts is fixed by the library
    from collada import source as _source
    for sem in ('VERTEX', 'TEXCOORD', 'WEIGHT_MAP', 'JOINT'):
        try:
            il = _source.InputList()
            il.addInput(0, sem, '#probe')
            out.append('inputlist %s accepted (%d inputs)' % (sem, len(il.getList())))
        except Exception as e:
            out.append('inputlist %s raised %s' % (sem, type(e).__name__))
    for gi, g in enumerate(d.geometries):
        for pi, p in enumerate(g.primitives):
            prim(p, 'g%d.p%d' % (gi, pi))
    for si, sc in enumerate(d.scenes):
        for kind in ('geometry', 'light', 'camera'):
            try:
                objs = list(sc.objects(kind))
                out.append('s%d %s n=%d %s' % (si, kind, len(objs), ','.join(type(o).__name__ for o in objs[:8])))
                if kind == 'geometry':
                    for oi, bg in enumerate(objs[:4]):
                        for pi, bp in enumerate(bg.primitives()):
                            prim(bp, 's%d.o%d.p%d' % (si, oi, pi))
            except Exception as e:
                out.append('s%d %s raised %s' % (si, kind, type(e).__name__))
    return '\n'.join(out)


def state_line(slot):
    """the observables the Lean machine models, in the driver's format"""
    d = slot.doc
    if d is None:
        return 'empty'
    ns, _ = split_tag(d.tag('x'))
    parts = ['ns=%s' % ns,
             'mask=%s' % ','.join(getattr(m, '__name__', repr(m)) for m in d.maskedErrors),
             'errors=%s' % ','.join(type(e).__name__ for e in d.errors)]
    for lib in LIBS:
        parts.append('%s=%s' % (lib, ','.join(qid(getattr(o, 'id', None)) for o in getattr(d, lib))))
    return ' '.join(parts)


# ----------------------------------------------------------------------------- deep snapshot of one document

def snapshot(slot):
    """canonical text of everything reachable from the document through instance state (private attributes,
    arrays by dtype/shape/bytes, XML by serialisation, closures, aliasing by first-occurrence numbering)"""
    import numpy
    d = slot.doc
    if d is None:
        return 'empty'
    blank = slot.blank
    seen = {}
    keep = []

    def w(o, depth):
        if o is None or isinstance(o, (bool, int, str, float)):
            return repr(o)
        if isinstance(o, bytes):
            return 'b:%d:%s' % (len(o), sha(o))
        if isinstance(o, numpy.generic):
            return 'np:%s:%r' % (o.dtype, o.item())
        if isinstance(o, type):
            return 'class:%s.%s' % (o.__module__, o.__qualname__)
        if isinstance(o, types.ModuleType):
            return 'module:' + o.__name__
        if isinstance(o, (datetime.datetime, datetime.date)):
            return 'time' if blank else 'time:' + o.isoformat()
        i = id(o)
        if i in seen:
            return '@%d' % seen[i]
        n = seen[i] = len(seen)
        keep.append(o)
        if depth > 60:
            return '#%d:deep' % n
        if isinstance(o, numpy.ndarray):
            if o.dtype == object:
                return '#%d:ndobj%s[%s]' % (n, o.shape, ','.join(w(x, depth + 1) for x in o.ravel().tolist()))
            return '#%d:nd(%s,%s,%s)' % (n, o.dtype, o.shape, sha(o.tobytes()))
        if isinstance(o, (list, tuple)):
            return '#%d:%s[%s]' % (n, type(o).__name__, ','.join(w(x, depth + 1) for x in o))
        if isinstance(o, (set, frozenset)):
            return '#%d:set[%s]' % (n, ','.join(sorted(w(x, depth + 1) for x in o)))
        if isinstance(o, dict):
            return '#%d:%s{%s}' % (n, type(o).__name__, ','.join(sorted('%s:%s' % (w(k, depth + 1), w(v, depth + 1)) for k, v in o.items())))
        if isinstance(o, ET.Element):
            b = elem_text(o)
            return '#%d:elem(%s)' % (n, sha(blank_times(b) if blank else b))
        if isinstance(o, ET.ElementTree):
            return '#%d:etree(%s)' % (n, w(o.getroot(), depth + 1))
        if isinstance(o, types.FunctionType):
            cells = [w(c.cell_contents, depth + 1) for c in (o.__closure__ or ())]
            return '#%d:fn:%s.%s(%s)' % (n, o.__module__, o.__qualname__, ','.join(cells))
        if isinstance(o, types.MethodType):
            return '#%d:meth:%s of %s' % (n, o.__func__.__qualname__, w(o.__self__, depth + 1))
        if isinstance(o, zipfile.ZipFile):
            return '#%d:zip[%s]' % (n, ','.join(o.namelist()))
        if isinstance(o, BaseException):
            return '#%d:exc:%s{%s}' % (n, type(o).__name__, ','.join('%s:%s' % (k, w(v, depth + 1)) for k, v in sorted(vars(o).items())))
        if hasattr(o, '__dict__'):
            return '#%d:obj:%s.%s{%s}' % (n, type(o).__module__, type(o).__qualname__,
                                        ','.join('%s:%s' % (k, w(v, depth + 1)) for k, v in sorted(vars(o).items())))
        return '#%d:other:%s' % (n, type(o).__qualname__)

    return w(d, 0)


def elem_text(e):
    """serialisation of an element subtree that cannot fail (text of any type, by repr)"""
    out = []

    def rec(x):
        out.append('<%s' % (x.tag,))
        for k in sorted(x.attrib, key=repr):
            out.append(' %r=%r' % (k, x.attrib[k]))
        out.append('>')
        if x.text is not None:
            out.append(x.text if isinstance(x.text, str) else repr(x.text))
        for c in x:
            rec(c)
        out.append('</>')
        if x.tail is not None and x.tail.strip():
            out.append(x.tail if isinstance(x.tail, str) else repr(x.tail))
    rec(e)
    return ''.join(out).encode('utf-8', 'replace')


def observe(slot, out, written, detail):
    snap = snapshot(slot)
    wd = None
    if written is not None:
        canon = blank_times(written) if slot.blank else written
        wd = sha(canon)
        if detail:
            wd += ':' + canon[:4000].decode('utf-8', 'replace')
    ob = dict(out=out, state=state_line(slot), snap=sha(snap.encode()), written=wd)
    if detail:
        ob['full'] = snap
    return ob


# ----------------------------------------------------------------------------- (a) module-state monitor

_SKIP_GLOBALS = ('__builtins__', '__cached__', '__loader__', '__spec__', '__warningregistry__', '__file__', '__path__', '__doc__')


_SCALARS = (bool, int, float, str, bytes)
_FN_CACHE = {}


def _desc(v, depth=0):
    import numpy
    if v is None or isinstance(v, (bool, int, float, str, bytes)):
        return repr(v)
    if isinstance(v, types.ModuleType):
        return 'module:%s@%x' % (v.__name__, id(v))
    if isinstance(v, type):
        return 'class:%s.%s@%x' % (v.__module__, v.__qualname__, id(v))
    if isinstance(v, (staticmethod, classmethod)):
        return type(v).__name__ + ':' + _desc(v.__func__, depth)
    if isinstance(v, property):
        return 'property(%s,%s,%s)' % (_desc(v.fget, depth), _desc(v.fset, depth), _desc(v.fdel, depth))
    if isinstance(v, types.FunctionType):
        # plain functions (no closure, no attributes, only immutable scalar defaults) are described once;
        # the cache holds the function so that its id cannot be reused
        plain = (v.__closure__ is None and not v.__dict__ and not v.__kwdefaults__
                 and (v.__defaults__ is None or all(x is None or type(x) in _SCALARS for x in v.__defaults__)))
        if plain:
            key = (id(v), id(v.__code__), v.__defaults__)
            hit = _FN_CACHE.get(key)
            if hit is None:
                hit = _FN_CACHE[key] = (v, 'fn:%s@%x code@%x defaults=%r' % (v.__qualname__, id(v), id(v.__code__), v.__defaults__))
            return hit[1]
        return 'fn:%s@%x code@%x defaults=%s kw=%s attrs=%s closure=%s' % (
            v.__qualname__, id(v), id(v.__code__), _desc(v.__defaults__, depth + 1), _desc(v.__kwdefaults__, depth + 1),
            _desc(v.__dict__, depth + 1) if v.__dict__ else '',
            _desc(tuple(c.cell_contents for c in v.__closure__), depth + 1) if v.__closure__ else '')
    if isinstance(v, (types.BuiltinFunctionType, types.MethodDescriptorType, types.WrapperDescriptorType,
                      types.GetSetDescriptorType, types.MemberDescriptorType)):
        return 'builtin:%s@%x' % (getattr(v, '__qualname__', '?'), id(v))
    if depth > 5:
        return '%s@%x' % (type(v).__name__, id(v))
    if isinstance(v, numpy.ndarray):
        return 'nd@%x(%s,%s,%s)' % (id(v), v.dtype, v.shape, sha(v.tobytes()))
    if isinstance(v, (list, tuple)):
        return '%s@%x[%s]' % (type(v).__name__, id(v) if isinstance(v, list) else 0, ','.join(_desc(x, depth + 1) for x in v))
    if isinstance(v, (set, frozenset)):
        return 'set@%x[%s]' % (id(v), ','.join(sorted(_desc(x, depth + 1) for x in v)))
    if isinstance(v, dict):
        return 'dict@%x{%s}' % (id(v), ','.join(sorted('%s:%s' % (_desc(k, depth + 1), _desc(x, depth + 1)) for k, x in v.items())))
    extra = ''
    if hasattr(type(v), 'cache_info'):
        try:
            extra = ' cache=%r' % (v.cache_info(),)
        except Exception:
            pass
    d = getattr(v, '__dict__', None)
    return 'obj:%s@%x%s%s' % (type(v).__qualname__, id(v), extra, ' ' + _desc(d, depth + 1) if isinstance(d, dict) and d else '')


def module_state():
    """{attribute path: description} of all process-wide state of the library"""
    st = {}
    memo = {}      # one description per object per snapshot (the same E, numpy, … is imported by many modules)
    for name, mod in list(sys.modules.items()):
        if mod is None or not (name == 'collada' or name.startswith('collada.')) or name.startswith('collada.tests'):
            continue
        for k, v in list(vars(mod).items()):
            if k in _SKIP_GLOBALS:
                continue
            if isinstance(v, type) and v.__module__ == name:
                st['%s.%s' % (name, k)] = 'class@%x bases=%s' % (id(v), ','.join(b.__qualname__ for b in v.__bases__))
                for ck, cv in list(vars(v).items()):
                    if ck in ('__dict__', '__weakref__', '__doc__', '__module__', '__qualname__', '__firstlineno__', '__static_attributes__'):
                        continue
                    st['%s.%s.%s' % (name, k, ck)] = _desc(cv)
            elif v is None or type(v) in _SCALARS:
                st['%s.%s' % (name, k)] = repr(v)
            else:
                d = memo.get(id(v))
                if d is None:
                    d = memo[id(v)] = _desc(v)
                st['%s.%s' % (name, k)] = d
    st['xml.etree.ElementTree._namespace_map'] = _desc(ET._namespace_map)
    # process-wide (thread-wide) switches of the libraries underneath
    import numpy
    st['numpy.geterr()'] = repr(sorted(numpy.geterr().items()))
    st['numpy.get_printoptions()'] = repr(sorted((k, repr(v)) for k, v in numpy.get_printoptions().items()))
    st['xml.etree.ElementTree.register_namespace'] = _desc(ET.register_namespace)
    return st


class Monitor(object):
    def __init__(self):
        self.base = module_state()
        self.hits = []     # (where, [attribute paths])

    def check(self, where):
        cur = module_state()
        if cur == self.base:
            return None
        changed = []
        for k in sorted(set(cur) | set(self.base)):
            if k not in self.base:
                mod = k.rsplit('.', 1)[0]
                # a module imported lazily is not a write; a new attribute of a known module or class is
                if any(b == mod or b.startswith(mod + '.') for b in self.base):
                    changed.append(k + ' (added)')
            elif k not in cur:
                changed.append(k + ' (removed)')
            elif cur[k] != self.base[k]:
                changed.append(k)
        self.base = cur
        if changed:
            self.hits.append((where, changed))
        return changed or None


# ----------------------------------------------------------------------------- (b) object-graph disjointness

def reach(doc):
    """{id: (object, path)} of the mutable objects reachable from a document through instance state"""
    import numpy
    out = {}
    stack = [(doc, 'doc')]
    visited = set()
    while stack:
        o, path = stack.pop()
        if o is None or isinstance(o, (bool, int, float, str, bytes, type, types.ModuleType, numpy.generic, numpy.dtype,
                                       datetime.datetime, datetime.tzinfo, types.BuiltinFunctionType)):
            continue
        i = id(o)
        if i in visited:
            continue
        visited.add(i)
        kids = []
        mutable = True
        if isinstance(o, (tuple, frozenset)):
            mutable = False
            kids = [(x, path + '[]') for x in o]
        elif isinstance(o, (list, set)):
            kids = [(x, path + '[]') for x in o]
        elif isinstance(o, dict):
            kids = [(x, path + '{}') for x in o.values()] + [(x, path + '{key}') for x in o.keys()]
        elif isinstance(o, numpy.ndarray):
            kids = [(o.base, path + '.base')]
            if o.dtype == object:
                kids += [(x, path + '[]') for x in o.ravel().tolist()]
        elif isinstance(o, ET.Element):
            kids = [(c, path + '/' + split_tag(c.tag)[1]) for c in o] + [(o.attrib, path + '.attrib')]
        elif isinstance(o, ET.ElementTree):
            kids = [(o.getroot(), path + '.root')]
        elif isinstance(o, types.FunctionType):
            mutable = False
            kids = [(c.cell_contents, path + '<closure>') for c in (o.__closure__ or ())]
        elif isinstance(o, types.MethodType):
            mutable = False
            kids = [(o.__self__, path + '.__self__'), (o.__func__, path + '.__func__')]
        elif hasattr(o, '__dict__'):
            kids = [(v, '%s.%s' % (path, k)) for k, v in vars(o).items()]
            for s in getattr(type(o), '__slots__', ()):
                if hasattr(o, s):
                    kids.append((getattr(o, s), '%s.%s' % (path, s)))
        elif isinstance(o, (bytearray, memoryview)):
            pass
        else:
            mutable = False
        if mutable:
            out[i] = (o, path)
        stack.extend(kids)
    return out


def shared_objects(slots):
    """paths of mutable objects reachable from two documents"""
    graphs = [(n, reach(s.doc)) for n, s in enumerate(slots) if s.doc is not None]
    hits = []
    for a in range(len(graphs)):
        for b in range(a + 1, len(graphs)):
            common = set(graphs[a][1]) & set(graphs[b][1])
            for i in sorted(common, key=lambda i: (graphs[a][1][i][1].count('.') + graphs[a][1][i][1].count('['), graphs[a][1][i][1]))[:1]:
                o, pa = graphs[a][1][i]
                hits.append((graphs[a][0], graphs[b][0], re.sub(r'\d+', '', pa), re.sub(r'\d+', '', graphs[b][1][i][1]), type(o).__name__))
    return hits


# ----------------------------------------------------------------------------- running cases on the real code

def fork_call(f, args):
    """f(args) computed in a fork of this process"""
    rr, ww = os.pipe()
    pid = os.fork()
    if pid == 0:
        try:
            os.close(rr)
            try:
                res = ('ok', f(args))
            except BaseException:
                res = ('exc', traceback.format_exc())
            with os.fdopen(ww, 'wb') as fh:
                pickle.dump(res, fh)
        finally:
            os._exit(0)
    os.close(ww)
    with os.fdopen(rr, 'rb') as fh:
        data = fh.read()
    os.waitpid(pid, 0)
    tag, val = pickle.loads(data) if data else ('exc', 'child died')
    if tag != 'ok':
        raise RuntimeError(val)
    return val


def run_ops(args):
    """execute operations on one slot in this process"""
    ops, detail = args
    slot = Slot()
    obs = []
    for op in ops:
        out, written = do_op(slot, op)
        obs.append(observe(slot, out, written, detail))
    return obs


def run_solo(args):
    """what one slot's operations show when every document OBJECT is handled alone.  Runs in a pristine fork
    that only coordinates: each `new`/`load` is executed alone in a fresh fork (its outcome decides whether it
    replaces the slot's document), and each document object — its creating operation followed by the edits,
    ignores and saves made on it — in another.  A failed load, and any operation on an empty slot, shows the
    surviving document unchanged."""
    ops, detail = args
    obs = [None] * len(ops)
    seg = None
    segs = []
    for k, op in enumerate(ops):
        if op[0] in ('new', 'load'):
            r = fork_call(run_ops, ([op], detail))[0]
            if r['out'] in ('ok', 'loaded'):
                seg = ([k], [op])
                segs.append(seg)
                obs[k] = r
            else:
                obs[k] = ('failed', r['out'])
        elif seg is None:
            obs[k] = ('nodoc', 'nodoc')
        else:
            seg[0].append(k)
            seg[1].append(op)
    for idxs, sops in segs:
        if len(sops) > 1:
            for k, r in zip(idxs, fork_call(run_ops, (sops, detail))):
                obs[k] = r
    cur = dict(state='empty', snap=sha(b'empty'), full='empty')
    for k in range(len(ops)):
        if isinstance(obs[k], tuple):
            o = dict(out=obs[k][1], state=cur['state'], snap=cur['snap'], written=None)
            if detail:
                o['full'] = cur.get('full')
            obs[k] = o
        else:
            cur = obs[k]
    return obs


def run_inter(args, monitor=None):
    """the whole schedule in this process.  Returns per-step observations, monitor hits, shared objects"""
    case, detail = args
    own = monitor is None
    if own:
        monitor = Monitor()
    h0 = len(monitor.hits)
    slots = [Slot() for _ in range(case['docs'])]
    obs = []
    for step, (i, op) in enumerate(case['sched']):
        out, written = do_op(slots[i], op)
        obs.append(observe(slots[i], out, written, detail))
        monitor.check((step, i, op[0]))
    final = [observe(s, 'final', None, detail) for s in slots]
    return dict(obs=obs, final=final, monitor=monitor.hits[h0:], shared=shared_objects(slots))


def run_poke(args):
    """turn a shared mutable object into a failing history: run the schedule, edit the object through the document that comes first,
    and look at the OTHER document's public model (vlib.snap) and written bytes before and after the edit"""
    case, want = args
    from vlib import snap as vsnap
    import numpy
    slots = [Slot() for _ in range(case['docs'])]
    for i, op in case['sched']:
        do_op(slots[i], op)
    graphs = [(n, reach(s.doc)) for n, s in enumerate(slots) if s.doc is not None]
    for x in range(len(graphs)):
        for y in range(x + 1, len(graphs)):
            for i in set(graphs[x][1]) & set(graphs[y][1]):
                o, pa = graphs[x][1][i]
                if re.sub(r'\d+', '', pa) != want:
                    continue
                other = slots[graphs[y][0]].doc

                def look():
                    try:
                        pub = json.dumps(vsnap.snapshot(other), sort_keys=True, default=repr)
                    except Exception as ex:
                        pub = 'raised ' + type(ex).__name__
                    try:
                        buf = io.BytesIO()
                        other.write(buf)
                        wr = blank_times(buf.getvalue())
                    except Exception as ex:
                        wr = ('raised ' + type(ex).__name__).encode()
                    return pub, wr
                before = look()
                if isinstance(o, list):
                    if o:
                        o.append(o[0])
                        how = '.append(<its first element>)'
                    elif pa.endswith('contributors'):
                        from collada import asset
                        o.append(asset.Contributor(author='verif'))
                        how = ".append(Contributor(author='verif'))"
                    else:
                        return None
                elif isinstance(o, dict):
                    if not o:
                        return None
                    o['verif-added'] = next(iter(o.values()))
                    how = "['verif-added'] = <one of its values>"
                elif isinstance(o, numpy.ndarray) and o.size and o.dtype.kind in 'fiu':
                    o.flat[0] += 1
                    how = '.flat[0] += 1'
                else:
                    return None
                after = look()
                changed = [n for n, a, b in zip(('public model', 'written bytes'), before, after) if a != b]
                if not changed:
                    return None
                k = next((k for k in range(min(len(before[0]), len(after[0]))) if before[0][k] != after[0][k]), 0)
                return dict(first=graphs[x][0], other=graphs[y][0], path=pa, how=how, changed=changed,
                            before=before[0][max(0, k - 60):k + 80], after=after[0][max(0, k - 60):k + 80])
    return None


FUNCS = dict(solo=run_solo, inter=run_inter, poke=run_poke)   # solo: the forked child only coordinates and stays pristine


class Zygote(object):
    """a forked copy of this process made before any document was touched; every request is served by a
    fresh fork of it, so each solo run (and each shrink trial) starts from import-time state"""

    def __init__(self):
        a_r, a_w = os.pipe()
        b_r, b_w = os.pipe()
        sys.stdout.flush()
        sys.stderr.flush()
        pid = os.fork()
        if pid == 0:
            try:
                os.close(a_w)
                os.close(b_r)
                self._serve(os.fdopen(a_r, 'rb'), os.fdopen(b_w, 'wb'))
            finally:
                os._exit(0)
        os.close(a_r)
        os.close(b_w)
        self.w = os.fdopen(a_w, 'wb')
        self.r = os.fdopen(b_r, 'rb')
        self.pid = pid

    def call(self, fn, args_list):
        pickle.dump((fn, list(args_list)), self.w)
        self.w.flush()
        res = pickle.load(self.r)
        out = []
        for tag, val in res:
            if tag != 'ok':
                raise core.Infra('forked %s run failed: %s' % (fn, val))
            out.append(val)
        return out

    def close(self):
        try:
            self.w.close()
            os.waitpid(self.pid, 0)
        except Exception:
            pass

    @staticmethod
    def _serve(r, w):
        width = max(1, min(8, (os.cpu_count() or 2)))
        while True:
            try:
                req = pickle.load(r)
            except EOFError:
                return
            fn, args_list = req
            results = []
            for base in range(0, len(args_list), width):
                kids = []
                for args in args_list[base:base + width]:
                    rr, ww = os.pipe()
                    pid = os.fork()
                    if pid == 0:
                        try:
                            os.close(rr)
                            try:
                                res = ('ok', FUNCS[fn](args))
                            except BaseException:
                                res = ('exc', traceback.format_exc())
                            with os.fdopen(ww, 'wb') as f:
                                pickle.dump(res, f)
                        finally:
                            os._exit(0)
                    os.close(ww)
                    kids.append((pid, rr))
                for pid, rr in kids:
                    with os.fdopen(rr, 'rb') as f:
                        data = f.read()
                    os.waitpid(pid, 0)
                    results.append(pickle.loads(data) if data else ('exc', 'child died'))
            pickle.dump(results, w)
            w.flush()


def doc_ops(case, i):
    return [op for j, op in case['sched'] if j == i]


KEYS = ('out', 'state', 'snap', 'written')


def compare(case, inter, solos):
    """first difference between what each document shows in the interleaved run and alone.
    Returns None or dict(doc, k (index among the document's ops), op, field, inter, solo)"""
    per = {}
    for (i, op), ob in zip(case['sched'], inter['obs']):
        per.setdefault(i, []).append((op, ob))
    best = None
    for i in range(case['docs']):
        mine = per.get(i, [])
        solo = solos[i]
        for k, ((op, a), b) in enumerate(zip(mine, solo)):
            bad = [f for f in KEYS if a[f] != b[f]]
            if bad:
                step = [n for n, (j, _) in enumerate(case['sched']) if j == i][k]
                cand = dict(doc=i, k=k, step=step, op=op[0], field=bad[0], inter={f: a[f] for f in KEYS}, solo={f: b[f] for f in KEYS},
                            full=(a.get('full'), b.get('full')))
                if best is None or step < best['step']:
                    best = cand
                break
        else:
            # nothing the document showed at its own operations differs: what it holds when the whole schedule is over
            # (other documents went on after its last operation) is what it held after that operation alone
            if mine and len(mine) == len(solo) and 'final' in inter and inter['final'][i]['snap'] != solo[-1]['snap']:
                step = len(case['sched'])
                if best is None:
                    a, b = inter['final'][i], solo[-1]
                    best = dict(doc=i, k=len(mine) - 1, step=step, op='afterwards', field='snap', inter={f: a.get(f) for f in KEYS},
                                solo={f: b.get(f) for f in KEYS}, full=(a.get('full'), b.get('full')))
    return best


def text_diff(a, b):
    if not a or not b:
        return ''
    if a[16:17] == ':' and b[16:17] == ':':     # written / query observables in detail mode: digest:text
        a, b = a[17:], b[17:]
    n = next((k for k in range(min(len(a), len(b))) if a[k] != b[k]), min(len(a), len(b)))
    return 'snapshots diverge at char %d: interleaved …%s… vs solo …%s…' % (n, a[max(0, n - 120):n + 80], b[max(0, n - 120):n + 80])


def judge(z, case, detail=False):
    """pristine verdict on one case: solos and the interleaved run each in a fresh fork"""
    solos = z.call('solo', [(doc_ops(case, i), detail) for i in range(case['docs'])])
    inter = z.call('inter', [(case, detail)])[0]
    return compare(case, inter, solos), inter


def concat_cases(cs):
    docs, sched = 0, []
    for c in cs:
        sched += [[i + docs, op] for i, op in c['sched']]
        docs += c['docs']
    return dict(docs=docs, sched=sched)


def keep_docs(case, keep):
    m = dict((d, n) for n, d in enumerate(keep))
    return dict(docs=len(keep), sched=[[m[i], op] for i, op in case['sched'] if i in m])


def ddmin(items, test, budget):
    """delta debugging: a small sublist (order kept) on which `test` still holds.  budget = [trials left]"""
    n = 2
    while len(items) >= 2 and budget[0] > 0:
        chunk = max(1, len(items) // n)
        reduced = False
        for s in range(0, len(items), chunk):
            cand = items[:s] + items[s + chunk:]
            if not cand or budget[0] <= 0:
                continue
            budget[0] -= 1
            if test(cand):
                items = cand
                n = max(n - 1, 2)
                reduced = True
                break
        if not reduced:
            if chunk == 1:
                break
            n = min(len(items), n * 2)
    return items


def shrink(z, case, pred, budget=120):
    """drop documents, then single operations, while `pred(case)` still holds"""
    left = [budget]
    docs = ddmin(list(range(case['docs'])), lambda ds: bool(keep_docs(case, ds)['sched']) and pred(keep_docs(case, ds)), left)
    case = keep_docs(case, docs)
    sched = ddmin(case['sched'], lambda ops: pred(dict(docs=case['docs'], sched=ops)), left)
    case = dict(docs=case['docs'], sched=sched)
    used = sorted(set(i for i, _ in case['sched']))
    return keep_docs(case, used)


# ----------------------------------------------------------------------------- schedule generator

def gen_ops(rng, maxops):
    """operation sequence of one document"""
    def spec():
        if rng.random() < 0.25:
            return dict(kind='file', name=rng.choice(FILES))
        return gen_doc(rng)

    ops = []
    r = rng.random()
    cur = None          # ids believed present, per lib (only to aim the edits)
    if r < 0.8:
        s = spec()
        # a damaged document mostly comes with a mask (so that it loads, with recorded errors) and sometimes without (failed load)
        faulty = s['kind'] == 'gen' and any(f for _, _, _, f in s['items'])
        ops.append(['load', s, rng.choice(MASKS[3:]) if faulty and rng.random() < 0.5 else rng.choice(MASKS)])
        cur = s
    elif r < 0.93:
        ops.append(['new'])
    else:
        ops.append(rng.choice([['save'], ['ignore', ['DaeError']], ['add', 'lights', 'early']]))   # before any document exists
    fresh = 0
    for _ in range(rng.randint(1, maxops)):
        k = rng.choice(['add', 'add', 'remove', 'remove', 'ignore', 'save', 'save', 'load', 'new', 'save', 'query', 'query', 'handle', 'handle', 'clear'])
        if k == 'add':
            lib = rng.choice(GEN_LIBS)
            fresh += 1
            known = known_ids(cur, lib)
            id_ = rng.choice(known) if known and rng.random() < 0.15 else 'x%s%d' % (lib[:2], fresh)
            ops.append(['add', lib, id_])
        elif k == 'remove':
            lib = rng.choice(GEN_LIBS)
            known = known_ids(cur, lib) + [o[2] for o in ops if o[0] == 'add' and o[1] == lib]
            id_ = rng.choice(known) if known and rng.random() < 0.75 else 'zz'
            ops.append(['remove', lib, id_])
        elif k == 'ignore':
            ops.append(['ignore', rng.choice([m for m in MASKS if m])])
        elif k in ('save', 'query', 'clear'):
            ops.append([k])
        elif k == 'handle':
            ops.append(['handle', rng.choice(ERRS[1:])])
        elif k == 'load':
            if rng.random() < 0.5:
                s = spec()
                ops.append(['load', s, rng.choice(MASKS)])
                cur = s
        elif k == 'new':
            if rng.random() < 0.2:
                ops.append(['new'])
                cur = None
    return ops


def known_ids(spec, lib):
    if spec is None:
        return []
    if spec['kind'] == 'gen':
        return [i for l, i, ens, f in spec['items'] if l == lib and f is None and ens == spec['ns']]
    fi = file_items(spec)
    return [i for l, i, ens, f in (fi[1] if fi else []) if l == lib and i]


def gen_case(rng, maxops):
    k = rng.choice([2, 2, 3, 3, 4, 5])
    seqs = [gen_ops(rng, maxops) for _ in range(k)]
    pos = [0] * k
    sched = []
    mode = rng.random()
    while True:
        live = [i for i in range(k) if pos[i] < len(seqs[i])]
        if not live:
            break
        if mode < 0.15:
            i = live[0]                       # block-sequential: all of doc 0, then doc 1, …
        elif mode < 0.3:
            i = min(live, key=lambda j: pos[j])   # round robin
        else:
            i = rng.choice(live)
        sched.append([i, seqs[i][pos[i]]])
        pos[i] += 1
    return dict(docs=k, sched=sched)


def op_ns(op):
    if op[0] == 'new':
        return NS14
    if op[0] == 'load':
        if op[1]['kind'] == 'gen':
            return op[1]['ns']
        return NS15 if op[1]['name'].startswith('wam') else NS14
    return None


def brief(case):
    def b(op):
        if op[0] == 'load':
            s = op[1]
            what = s['name'] if s['kind'] == 'file' else 'gen(ns=%s,items=%d,faults=%d%s)' % (
                s['ns'], len(s['items']), sum(1 for x in s['items'] if x[3]), ',fatal' if s.get('fatal') else '')
            return 'load %s ignore=%s' % (what, op[2])
        return ' '.join(str(x) for x in op)
    return ['%d: %s' % (i, b(op)) for i, op in case['sched']]


def adopt_check(seed):
    """hand a library of one document to another (`B.lights = A.lights`), then edit either: the other document's list, id index and written
    bytes stay what they were. Returns None or (signature, text)"""
    import collada
    rng = random.Random('c20adopt/%s' % seed)
    docs = []
    for _ in range(2):
        spec = gen_doc(rng)
        spec['fatal'] = None
        try:
            docs.append(collada.Collada(io.BytesIO(render(spec)), ignore=[err_class('DaeError')]))
        except Exception:
            return 'skip'
    a, b = docs
    lib = rng.choice(GEN_LIBS)
    for i in range(rng.randint(0, 2)):
        getattr(a, lib).append(make_object(a, lib, 'pre%d' % i))
    form = rng.choice(['list-object', 'list-object', 'plain-list', 'slice'])
    src = getattr(a, lib)
    setattr(b, lib, src if form == 'list-object' else list(src) if form == 'plain-list' else src[:])

    def view(d):
        L = getattr(d, lib)
        buf = io.BytesIO()
        try:
            d.write(buf)
        except Exception as e:
            buf = io.BytesIO(('write failed: %s' % type(e).__name__).encode())
        return ([qid(getattr(o, 'id', None)) for o in L], sorted(k for k in ['pre0', 'pre1', 'new0', 'new1', 'new2'] if k in L), blank_times(buf.getvalue()))
    victim, actor = (a, b) if rng.random() < 0.6 else (b, a)
    before = view(victim)
    hist = []
    for i in range(rng.randint(1, 3)):
        L = getattr(actor, lib)
        if len(L) and rng.random() < 0.4:
            hist.append('remove')
            L.remove(L[rng.randrange(len(L))])
        else:
            hist.append('append')
            L.append(make_object(actor, lib, 'new%d' % i))
    after = view(victim)
    if before != after:
        what = 'contents' if before[0] != after[0] else 'id index' if before[1] != after[1] else 'written bytes'
        return ('adopt:%s' % what.replace(' ', '-'), 'B.%s = A.%s (%s), then %s on %s.%s: the %s of the OTHER document changed: %s -> %s'
                % (lib, lib, form, '+'.join(hist), 'B' if actor is b else 'A', lib, what, before[0], after[0]))
    return None


def nested_write_check(seed):
    """a deterministic interleaving BELOW the granularity of one public call: while document A is being written (its sink's write() is
    running, which is where another thread gets to run), document B is loaded / written completely. Both outputs must be the bytes each
    document gives when written alone. Returns None or (signature, text)"""
    import collada
    rng = random.Random('c20nest/%s' % seed)
    specs = []
    for want14 in rng.choice([(False, True), (True, False), (False, False), (True, True)]):
        for _ in range(50):
            sp = gen_doc(rng)
            sp['fatal'] = None
            if (sp['ns'] == NS14) == want14:
                break
        specs.append(sp)
    try:
        a = collada.Collada(io.BytesIO(render(specs[0])), ignore=[err_class('DaeError')])
        b = collada.Collada(io.BytesIO(render(specs[1])), ignore=[err_class('DaeError')])
    except Exception:
        return 'skip'

    def alone(d):
        buf = io.BytesIO()
        d.write(buf)
        return buf.getvalue()
    try:
        exp_a, exp_b = alone(a), alone(b)
    except Exception:
        return 'skip'
    inner = {}

    class Sink(object):
        def __init__(self):
            self.parts = []

        def write(self, data):
            self.parts.append(data)
            if 'b' not in inner:
                inner['b'] = None
                try:
                    if rng.random() < 0.5:
                        inner['b'] = alone(b)
                    else:
                        inner['b'] = alone(collada.Collada(io.BytesIO(render(specs[1])), ignore=[err_class('DaeError')]))
                except Exception as e:
                    inner['b'] = ('raised %s' % type(e).__name__).encode()
    sink = Sink()
    try:
        a.write(sink)
    except Exception as e:
        return ('nested:raised', 'writing %s while another document is written inside the sink raised %s' % (specs[0]['ns'], type(e).__name__))
    got_a = b''.join(sink.parts)
    if inner.get('b') is not None and inner['b'] != exp_b:
        return ('nested:inner-differs', 'a document in namespace %s written while a document in namespace %s is being written differs from the same document written alone: %s'
                % (specs[1]['ns'], specs[0]['ns'], text_diff(inner['b'], exp_b)))
    if got_a != exp_a:
        return ('nested:outer-differs', 'a document in namespace %s during whose write a document in namespace %s was written differs from the same document written alone: %s'
                % (specs[0]['ns'], specs[1]['ns'], text_diff(got_a, exp_a)))
    return None


def disk_documents_check(seed):
    """documents on disk that look alike from where the process stands: the same relative file name in two directories, the same texture name with
    other bytes, a texture rewritten between two loads. Every document gets ITS files, as it would alone. Returns None or (signature, text)"""
    import collada
    import shutil
    import tempfile
    rng = random.Random('c20disk/%s' % seed)
    top = tempfile.mkdtemp(prefix='c20disk_')
    cwd = os.getcwd()
    doc = ('<?xml version="1.0"?><COLLADA xmlns="%s" version="1.4.1"><asset><up_axis>Y_UP</up_axis></asset><library_images>'
           '<image id="i"><init_from>%s</init_from></image></library_images></COLLADA>')
    try:
        tex = rng.choice(['tex.png', './tex.png', 'maps/tex.png'])
        want = {}
        for name in ('a', 'b'):
            d = os.path.join(top, name)
            os.makedirs(os.path.join(d, 'maps'))
            with open(os.path.join(d, 'model.dae'), 'w') as f:
                f.write(doc % (NS14, tex))
            want[name] = ('texture of project %s %d' % (name, rng.randrange(10 ** 6))).encode()
            with open(os.path.join(d, os.path.normpath(tex)), 'wb') as f:
                f.write(want[name])
        order = rng.choice([['a', 'b'], ['b', 'a'], ['a', 'b', 'a'], ['a', 'a', 'b']])
        how = rng.choice(['relative', 'relative', 'absolute'])
        for step, name in enumerate(order):
            d = os.path.join(top, name)
            if rng.random() < 0.3:
                want[name] = ('rewritten %d' % rng.randrange(10 ** 6)).encode()
                with open(os.path.join(d, os.path.normpath(tex)), 'wb') as f:
                    f.write(want[name])
            if how == 'relative':
                os.chdir(d)
                c = collada.Collada('model.dae')
            else:
                c = collada.Collada(os.path.join(d, 'model.dae'))
            got = c.images[0].data
            if got != want[name]:
                return ('disk:other-documents-file', 'step %d: the document %s/model.dae (opened %s) gets %r as the data of %s, its own file holds %r; '
                        'order of documents %s' % (step, name, how, bytes(got)[:40] if got else got, tex, want[name][:40], order))
    finally:
        os.chdir(cwd)
        shutil.rmtree(top, ignore_errors=True)
    return None


# ----------------------------------------------------------------------------- the check

def run(ctx):
    z = Zygote()       # before this process touches any document
    try:
        _run(ctx, z)
    finally:
        z.close()


def _run(ctx, z):
    ctx.rule = ('random schedules: 2-5 document slots, each with its own sequence of new / load(bytes, ignore mask) / failed load / '
                'ignoreErrors / add or remove an object in one of nine libraries / write / read-only queries (len, triangleset(), scene.objects), over generated documents (1.4.1, 1.5 and random '
                'namespace URIs, shuffled library order, foreign-namespace children, items damaged so that their loader raises a chosen '
                'DaeError subclass, truncated or non-XML bytes) and the files of collada/tests/data, merged at random / round-robin / '
                'block-sequentially. A case is non-trivial when at least two documents were live, the schedule switches document at '
                'least twice, and the documents differ in namespace or ignore mask or one load failed; distinct = distinct schedule')
    ncases = ctx.n(180, 3600)
    maxops = 6 if not ctx.thorough else 10
    cases = [gen_case(ctx.rng, maxops) for _ in range(ncases)]

    # --- model: the same schedules through the frame machine and through the leaky machine
    model = None
    if ctx.lean_ok:
        lines = []
        index = []
        for c in cases:
            ms = modelled(c)
            start = len(lines)
            steps = [n for n, (i, op) in enumerate(c['sched']) if i in ms]
            for mode in ('frame', 'leaky'):
                lines.append('reset ' + mode)
                lines.extend(model_line(c['sched'][n][0], c['sched'][n][1]) for n in steps)
                for i in ms:
                    lines.append('proj %d' % i)
                    lines.append('solo %d' % i)
            index.append((start, steps, ms))
        lines.append('0 frobnicate')       # malformed stream is rejected
        lines.append('x save')
        lines.append('0 load urn:a - NoSuchError')
        ans = ctx.driver('C20', lines)
        if ans[-3:] != ['bad-op'] * 3:
            raise core.Infra('driver C20 accepted malformed lines: %r' % ans[-3:])
        model = (ans, index)
        # generator power: on how many of these schedules would the modelled leak (module-level tag, shared mask) show?
        exposed = 0
        for (start, steps, ms) in index:
            block = 1 + len(steps) + 2 * len(ms)
            ltail = ans[start + block:start + 2 * block][1 + len(steps):]
            if any(ltail[2 * k] != ltail[2 * k + 1] for k in range(len(ms))):
                exposed += 1
        ctx.notes['schedules_exposing_the_modelled_leak'] = '%d of %d (same schedules through the leaky machine: projection != solo)' % (exposed, len(cases))
        if len(cases) >= 50 and exposed == 0:
            raise core.Infra('no generated schedule exposes the leak of the leaky Lean machine: generator too weak')

    # --- pristine solo runs (each in a fresh fork of the zygote), computed chunk by chunk just before use
    solos = {}
    solo_stats = [0, 0.0]
    CHUNK = 60

    def solos_for(ci):
        if ci not in solos:
            t0 = time.time()
            batch = list(range(ci, min(ci + CHUNK, len(cases))))
            jobs = [(doc_ops(cases[n], i), False) for n in batch for i in range(cases[n]['docs'])]
            flat = z.call('solo', jobs)
            p = 0
            for n in batch:
                solos[n] = flat[p:p + cases[n]['docs']]
                p += cases[n]['docs']
            solos.pop(ci - 2 * CHUNK, None)
            solo_stats[0] += len(jobs)
            solo_stats[1] += time.time() - t0
        return solos[ci]

    # --- interleaved runs, all in this process one after the other (history accumulates), monitor on
    monitor = Monitor()
    reported = set()
    mon_cases = []
    for ci, c in enumerate(cases):
        inter = run_inter((c, False), monitor)
        diff = compare(c, inter, solos_for(ci))
        lives = sum(1 for f in inter['final'] if f['state'] != 'empty')
        switches = sum(1 for a, b in zip(c['sched'], c['sched'][1:]) if a[0] != b[0])
        nss = set(op_ns(op) for _, op in c['sched'] if op_ns(op))
        masks = set(json.dumps(op[2]) for _, op in c['sched'] if op[0] == 'load') | set(json.dumps(op[1]) for _, op in c['sched'] if op[0] == 'ignore')
        failed = any(ob['out'].startswith('fail:') for ob in inter['obs'])
        ctx.case(dict(docs=c['docs'], sched=brief(c)), nontrivial=lives >= 2 and switches >= 2 and (len(nss) > 1 or len(masks) > 1 or failed))
        for (i, op), ob in zip(c['sched'], inter['obs']):
            ctx.count('op:' + op[0])
            o = ob['out']
            ctx.count('outcome:%s:%s' % (op[0], o if not o.startswith('saved:') else 'saved'))
            if op[0] == 'load':
                ctx.count('load:' + ('file' if op[1]['kind'] == 'file' else 'ns14' if op[1]['ns'] == NS14 else 'ns15' if op[1]['ns'] == NS15 else 'nsrandom'))
        ctx.count('docs:%d' % c['docs'])

        if diff:
            sig = 'iso:%s:%s' % (diff['op'], diff['field'])
            if sig not in reported:
                reported.add(sig)
                report_iso(ctx, z, cases, ci, diff, reported)
        if inter['monitor']:
            mon_cases.append((c, inter['monitor']))
        for a, b, pa, pb, tn in inter['shared']:
            sig = 'corr:share:%s' % pa
            if sig not in reported and sum(1 for r in reported if r.startswith('corr:share:')) < 2:
                reported.add(sig)
                if z.call('poke', [(c, pa)])[0]:
                    small = shrink(z, c, lambda cc: bool(z.call('poke', [(cc, pa)])[0]), budget=40)
                else:
                    small = shrink(z, c, lambda cc: any(h[2] == pa for h in z.call('inter', [(cc, False)])[0]['shared']), budget=40)
                poke = z.call('poke', [(small, pa)])[0]
                if poke:
                    ctx.violation(sig, 'after the schedule %s, document %d and document %d hold the same mutable %s (%s of one, %s of the other): '
                                  'the edit `doc%d.%s%s` changed the %s of document %d — model …%s… became …%s…'
                                  % (brief(small), poke['first'], poke['other'], tn, pa, pb, poke['first'], poke['path'].split('.', 1)[-1], poke['how'],
                                     ' and the '.join(poke['changed']), poke['other'], poke['before'], poke['after']),
                                  dict(kind='share', case=small, path=pa, poke=True))
                    continue
                ctx.violation(sig, 'a mutable %s is reachable from two documents (%s of one, %s of the other): the operations do not have the '
                              'frame type DocState -> DocState x Out assumed by Pyc.Props.C20.schedule_projection; no interleaved-vs-solo '
                              'difference was needed to see it. Schedule: %s' % (tn, pa, pb, brief(small)),
                              dict(kind='share', case=small, path=pa), found_input=False)

        # model correspondence: per-step answer and final projection
        if model is not None and not diff:
            ans, index = model
            start, steps, ms = index[ci]
            block = 1 + len(steps) + 2 * len(ms)
            fr = ans[start:start + block]
            lk = ans[start + block:start + 2 * block]
            bad = None
            for n, a in zip(steps, fr[1:1 + len(steps)]):
                ob = inter['obs'][n]
                opk = c['sched'][n][1][0]
                mout, _, mstate = a.partition(' ; ')
                if opk == 'save' and ob['out'].startswith('fail:'):
                    ctx.count('save-raised:' + ob['out'][5:])     # a per-document outcome; not C20's to judge
                    mout = ob['out']
                if (mout, mstate) != (ob['out'], ob['state']):
                    bad = (n, opk, a, ob['out'] + ' ; ' + ob['state'])
                    break
            tail = fr[1 + len(steps):]
            for k, i in enumerate(ms):
                pr, so = tail[2 * k], tail[2 * k + 1]
                if pr != so:
                    raise core.Infra('Lean machine: projection differs from solo run (contradicts schedule_projection): %r vs %r' % (pr, so))
                if bad is None and pr.partition(' ; ')[2] != inter['final'][i]['state']:
                    bad = (len(c['sched']), 'final', pr, inter['final'][i]['state'])
            if bad:
                sig = 'corr:model:%s' % bad[1]
                if sig not in reported:
                    reported.add(sig)
                    ctx.violation(sig, 'correspondence Pyc.Iso.apply <-> collada broke at step %d (%s): model %r, implementation %r; interleaved and '
                                  'solo runs agree on this case (the document machine of Pyc/Model/Isolation.lean no longer describes the code)'
                                  % (bad[0], bad[1], bad[2], bad[3]),
                                  dict(kind='model', case=c, step=bad[0], model=bad[2], impl=bad[3]), found_input=False)
        if ctx.elapsed() > (36 if not ctx.thorough else 470) and (ci + 1) % CHUNK == 0 and ci + 1 < ncases:
            ctx.notes['stopped_early_after_cases'] = ci + 1
            break
    ctx.notes['solo_runs'] = solo_stats[0]
    ctx.notes['solo_wall_s'] = round(solo_stats[1], 2)

    # --- (a) monitor hits: name the attribute, then look for a schedule on which it matters
    if mon_cases:
        attrs = {}
        for c, hits in mon_cases:
            for where, changed in hits:
                for a in changed:
                    attrs.setdefault(a, (c, where))
        for a, (c, where) in sorted(attrs.items())[:6]:
            sig = 'corr:module-state:%s' % a
            if sig in reported:
                continue
            reported.add(sig)
            found = directed_search(ctx, z, c, where, reported)
            if not found:
                small = shrink(z, c, lambda cc: any(a in ch for _, ch in z.call('inter', [(cc, False)])[0]['monitor']), budget=40)
                ctx.violation(sig, 'process-wide state written after import: %s changed during operation %r (step %d) — the operation does not '
                              'have the frame type assumed by Pyc.Props.C20.schedule_projection; the directed interleaved-vs-solo search '
                              'found no document whose results depend on it. Schedule: %s' % (a, where[2], where[0], brief(small)),
                              dict(kind='monitor', case=small, attr=a), found_input=False)
    ctx.notes['module_state_attributes_watched'] = len(monitor.base)
    ctx.notes['module_state_writes_seen'] = len(monitor.hits)

    # --- (c') a library handed from one document to another
    for i in range(ctx.n(150, 3000)):
        aseed = ctx.rng.randrange(10 ** 9)
        try:
            ab = adopt_check(aseed)
        except Exception as e:
            ab = ('adopt:raised:' + type(e).__name__, 'handing a library to another document raised %s: %s' % (type(e).__name__, e))
        if ab == 'skip':
            continue
        ctx.count('adopt-library')
        if ab and 'iso:' + ab[0] not in reported:
            reported.add('iso:' + ab[0])
            ctx.violation('iso:' + ab[0], ab[1], dict(kind='adopt', seed=aseed))

    # --- (c'') another document handled in the middle of a write
    for i in range(ctx.n(120, 2500)):
        nseed = ctx.rng.randrange(10 ** 9)
        try:
            nb = nested_write_check(nseed)
        except Exception as e:
            nb = ('nested:check-raised:' + type(e).__name__, 'nested write check raised %s: %s' % (type(e).__name__, e))
        if nb == 'skip':
            continue
        ctx.count('nested-write')
        if nb and 'iso:' + nb[0] not in reported:
            reported.add('iso:' + nb[0])
            ctx.violation('iso:' + nb[0], nb[1], dict(kind='nested', seed=nseed))

    # --- documents on disk that look alike
    for i in range(ctx.n(60, 1200)):
        dseed = ctx.rng.randrange(10 ** 9)
        try:
            db = disk_documents_check(dseed)
        except Exception as e:
            db = ('disk:check-raised:' + type(e).__name__, 'disk documents check raised %s: %s' % (type(e).__name__, e))
        ctx.count('disk-documents')
        if db and 'iso:' + db[0] not in reported:
            reported.add('iso:' + db[0])
            ctx.violation('iso:' + db[0], db[1], dict(kind='disk', seed=dseed))

    # --- (d) threads on distinct documents
    if ctx.thorough:
        thread_soak(ctx, z, reported, 60.0 * min(1.0, float(os.environ.get('VERIF_SCALE', '1'))))

    ctx.assumptions.append('isolation is checked at operation granularity (one public call); finer interleavings are covered only by the absence of '
                           'shared mutable state ((a),(b)) and the thread soak of the thorough tier; C-level races in numpy/ElementTree/zipfile are outside the model')
    ctx.assumptions.append('solo runs are made in forks of a process that imported collada and never touched a document; module import is the baseline state')


def report_iso(ctx, z, cases, ci, diff, reported):
    """shrink and report an interleaved-vs-solo difference seen in case `ci`.  The interleaved runs share one
    process, so the cause may lie in earlier cases: they are prepended (1, 2, 4, … of them) until a difference
    shows up from a pristine process; the signature is that of the difference reproduced there"""
    base = want = None
    for h in (0, 1, 2, 4, 8, 16, 32, 64, 128):
        h = min(h, ci)
        cand = concat_cases(cases[ci - h:ci + 1])
        d, _ = judge(z, cand)
        if d is not None:
            base, want = cand, (d['op'], d['field'])
            break
        if h == ci:
            break
    if base is None:
        ctx.violation('corr:unreproduced:iso:%s:%s' % (diff['op'], diff['field']),
                      'document %d shows %s=%r for %s in the run of all schedules in one process but %r alone; the difference did not '
                      'show up again from a pristine process' % (diff['doc'], diff['field'], str(diff['inter'][diff['field']])[:200], diff['op'],
                                                                  str(diff['solo'][diff['field']])[:200]),
                      dict(kind='iso', case=concat_cases(cases[max(0, ci - 8):ci + 1])), found_input=False)
        return
    sig = 'iso:%s:%s' % want
    if want != (diff['op'], diff['field']) and sig in reported:
        return
    reported.add(sig)

    def pred(cc):
        d, _ = judge(z, cc)
        return d is not None and (d['op'], d['field']) == want
    small = shrink(z, base, pred)
    d2, inter = judge(z, small, detail=True)
    mon = '; module state written: %s' % sorted(set(a for _, ch in inter['monitor'] for a in ch))[:4] if inter['monitor'] else ''
    ctx.violation(sig,
                  'document %d, its operation #%d (%s), shows %s=%r when other documents are handled in the same process but %r when handled alone%s. %s Schedule: %s'
                  % (d2['doc'], d2['k'], d2['op'], d2['field'], str(d2['inter'][d2['field']])[:200], str(d2['solo'][d2['field']])[:200], mon,
                     text_diff(*d2['full']) if d2['field'] == 'snap' else
                     text_diff(d2['inter']['written'], d2['solo']['written']).replace('snapshots', 'written bytes / query results') if d2['field'] == 'written' else '',
                     brief(small)),
                  dict(kind='iso', case=small), found_input=True)


def directed_search(ctx, z, c, where, reported):
    """the monitor saw operation `where` of case c write process-wide state: put every kind of victim document
    after (and around) the prefix of c that ends with it and compare with solo runs"""
    step = where[0]
    prefix = c['sched'][:step + 1]
    rng = ctx.rng
    for t in range(40):
        victim = gen_ops(rng, 4)
        k = c['docs']
        if t % 2 == 0:
            sched = prefix + [[k, op] for op in victim]
        else:
            sched = [[k, victim[0]]] + prefix + [[k, op] for op in victim[1:]]
        cand = dict(docs=k + 1, sched=sched)
        d, _ = judge(z, cand)
        ctx.count('directed-search')
        if d is not None:
            sig = 'iso:%s:%s' % (d['op'], d['field'])
            if sig not in reported:
                reported.add(sig)
                report_iso(ctx, z, [cand], 0, d, reported)
            return True
    # what one operation writes may need many repetitions to matter (a counter that creeps up, a cache that fills): the writing
    # operation again and again, then a victim
    for rep in (12, 300, 300, 300, 300):
        victim = gen_ops(rng, 6)
        k = c['docs']
        cand = dict(docs=k + 1, sched=prefix + [prefix[-1]] * rep + [[k, op] for op in victim])
        d, _ = judge(z, cand)
        ctx.count('directed-search:repeated')
        if d is not None:
            sig = 'iso:%s:%s' % (d['op'], d['field'])
            if sig not in reported:
                reported.add(sig)
                report_iso(ctx, z, [cand], 0, d, reported)
            return True
    return False


def thread_soak(ctx, z, reported, seconds):
    rng = ctx.rng
    old = sys.getswitchinterval()
    t_end = time.time() + seconds
    rounds = 0
    mon = Monitor()
    try:
        while time.time() < t_end:
            nt = rng.choice([8, 12, 16])
            seqs = [gen_ops(rng, 6) for _ in range(nt)]
            solos = z.call('solo', [(s, False) for s in seqs])
            results = [None] * nt
            errors = []
            barrier = threading.Barrier(nt)

            def work(n):
                try:
                    slot = Slot()
                    obs = []
                    barrier.wait()
                    for op in seqs[n]:
                        out, written = do_op(slot, op)
                        obs.append(observe(slot, out, written, False))
                    results[n] = obs
                except BaseException:
                    errors.append(traceback.format_exc())

            sys.setswitchinterval(1e-6)
            ths = [threading.Thread(target=work, args=(n,)) for n in range(nt)]
            for t in ths:
                t.start()
            for t in ths:
                t.join()
            sys.setswitchinterval(old)
            if errors:
                raise core.Infra('thread harness failed: ' + errors[0])
            rounds += 1
            ctx.count('thread-rounds')
            ctx.count('thread-docs', nt)
            case = dict(docs=nt, sched=[[n, op] for n in range(nt) for op in seqs[n]])
            ctx.case(dict(threads=nt, sched=brief(case)[:12]), nontrivial=True)
            for n in range(nt):
                for k, (a, b) in enumerate(zip(results[n], solos[n])):
                    bad = [f for f in KEYS if a[f] != b[f]]
                    if bad:
                        sig = 'iso:threads:%s:%s' % (seqs[n][k][0], bad[0])
                        if sig not in reported:
                            reported.add(sig)
                            ctx.violation(sig, 'with %d threads on distinct documents, one document shows %s=%r for its operation #%d (%s) but %r alone'
                                          % (nt, bad[0], a[bad[0]], k, seqs[n][k][0], b[bad[0]]),
                                          dict(kind='threads', seqs=seqs, doc=n), found_input=True)
                        break
            ch = mon.check(('threads', rounds, 'threads'))
            if ch:
                sig = 'corr:module-state:%s' % ch[0]
                if sig not in reported:
                    reported.add(sig)
                    ctx.violation(sig, 'process-wide state written during the thread run: %s' % ch[:5], dict(kind='threads', seqs=seqs, doc=0), found_input=False)
    finally:
        sys.setswitchinterval(old)
    ctx.notes['thread_rounds'] = rounds


def run_threads_once(seqs, z):
    """replay helper: one round of threads, returns True if some document differs from its solo run"""
    solos = z.call('solo', [(s, False) for s in seqs])
    nt = len(seqs)
    results = [None] * nt
    barrier = threading.Barrier(nt)

    def work(n):
        slot = Slot()
        obs = []
        barrier.wait()
        for op in seqs[n]:
            out, written = do_op(slot, op)
            obs.append(observe(slot, out, written, False))
        results[n] = obs
    old = sys.getswitchinterval()
    sys.setswitchinterval(1e-6)
    try:
        ths = [threading.Thread(target=work, args=(n,)) for n in range(nt)]
        for t in ths:
            t.start()
        for t in ths:
            t.join()
    finally:
        sys.setswitchinterval(old)
    return any(r is None or any(a[f] != b[f] for a, b in zip(r, s) for f in KEYS) for r, s in zip(results, solos))


def replay(ctx, rep):
    z = Zygote()
    try:
        kind = rep.get('kind')
        if kind == 'iso':
            d, inter = judge(z, rep['case'], detail=True)
            if d is None:
                return False
            print('  document %d, operation #%d (%s): %s interleaved=%r solo=%r' % (d['doc'], d['k'], d['op'], d['field'], str(d['inter'][d['field']])[:200], str(d['solo'][d['field']])[:200]))
            if d['field'] == 'written':
                print('  ' + text_diff(d['inter']['written'], d['solo']['written']))
            if d['field'] == 'snap':
                print('  ' + text_diff(*d['full']))
            return True
        if kind == 'disk':
            db = disk_documents_check(rep['seed'])
            if db:
                print('  ' + db[1])
            return bool(db)
        if kind == 'nested':
            nb = nested_write_check(rep['seed'])
            if nb and nb != 'skip':
                print('  ' + nb[1])
            return bool(nb) and nb != 'skip'
        if kind == 'adopt':
            ab = adopt_check(rep['seed'])
            if ab and ab != 'skip':
                print('  ' + ab[1])
            return bool(ab) and ab != 'skip'
        if kind == 'monitor':
            inter = z.call('inter', [(rep['case'], False)])[0]
            hit = [a for _, ch in inter['monitor'] for a in ch if rep['attr'] in a]
            if hit:
                print('  process-wide state written: %s' % hit)
            return bool(hit)
        if kind == 'share':
            inter = z.call('inter', [(rep['case'], False)])[0]
            hit = [h for h in inter['shared'] if h[2] == rep['path']]
            if hit:
                print('  shared mutable object: %s' % (hit[0],))
            if rep.get('poke'):
                poke = z.call('poke', [(rep['case'], rep['path'])])[0]
                if poke:
                    print('  edit through document %d (%s %s) changed the %s of document %d: …%s… -> …%s…'
                          % (poke['first'], poke['path'], poke['how'], ' and the '.join(poke['changed']), poke['other'], poke['before'], poke['after']))
                return bool(poke)
            return bool(hit)
        if kind == 'model':
            inter = z.call('inter', [(rep['case'], False)])[0]
            n = rep['step']
            got = (inter['obs'][n]['out'] + ' ; ' + inter['obs'][n]['state']) if n < len(inter['obs']) else None
            if got is not None and got != rep['model']:
                print('  model %r, implementation %r' % (rep['model'], got))
                return True
            return False
        if kind == 'threads':
            return any(run_threads_once(rep['seqs'], z) for _ in range(20))
        return False
    finally:
        z.close()
