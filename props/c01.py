"""C01 — write then load reproduces the document model; fixed point from the first reloaded generation on.

Proof: Pyc/Props/C01.lean (rounding stability `round_stable`, `model_fixed_point`, `text_fixed_point`, the kernel-checked
power-of-two and power-of-ten tables, the element-level theorems of C02/C03 restated).
Correspondence: numbers — for float32 values concentrated around powers of two and ten (and random ones) the text the real
writer produces ('%.7g') and the value the real parser reads back vs the relations isNearestDec7 / isNearestBin24 and
the function nearestDec7 of Pyc/Model/NumText.lean.
Direct oracle: constructed models of every variant and every loadable shipped document:
  write succeeds, output loads, reloaded model == model up to the seven digits written,
  generation 1 and generation 2 have identical bytes and identical models.
"""
import glob
import io
import os
import re
import zipfile
from fractions import Fraction

import numpy

from vlib import core, snap, modelgen
from props import c02

PID = 'C01'
TRANSLATORS = ['pow10_table']
LEAN_MODULES = ['Pyc.Model.NumText']
META = dict(
    level_text=('Proof (numeric clause and element level) + exploration of whole documents. Pyc/Props/C01.lean proves that rounding to a locally '
                'uniform set is stable under moving towards the rounded value (round_stable), that the float32 values form such a grid around every value that is not a power of two '
                '(localGrid_f32), and from both the fixed point of text -> float32 -> text -> float32 from the first reloaded generation on for every float32 value '
                '(float32_model_fixed_point), with the points where float32 spacing changes (all 277 powers of two) and the negative powers of ten settled by kernel-evaluated tables; the element-level part rests on the '
                'C02/C03 theorems (saved tree depends on the current model only; saving is idempotent). The relations used are tied to libc/numpy on every '
                'run by a differential check; whole-document round trips and the byte-level fixed point are evaluated on the implementation.'),
    level_note=('Trusted: Lean kernel + standard axioms; Pyc/Model/NumText.lean as the meaning of "%.7g" and of float32 parsing (checked against the runtime each run); '
                'the equal spacing of float32 values around every non-power-of-two value is PROVED (Pyc/Proofs/Float32Grid.lean: localGrid_f32, interior_of_f32), so '
                'float32_model_fixed_point is unconditional on the binary side; the equal spacing of the 7-digit decimals around every decimal that is not a power of ten is PROVED too '
                '(Pyc/Proofs/Dec7Grid.lean: localGrid_dec7, dinterior_of_dec7), so the stronger dec7_text_fixed_point (the very first written text is already final) holds away from '
                'powers of ten, and first_file_need_not_be_fixed exhibits a float32 value next to 1e28 where it fails, which is why the property starts at the first reloaded generation; '
                'PARTIAL: the executable relation isBin24 of the model and the set IsF32 of the proof are two renderings of '
                'the float32 format tied only by the correspondence run; there is no Lean model of the whole loader, so "reloaded model == model" for whole documents '
                'is established by the oracle on generated and shipped documents, not by a theorem.'),
    technique='Lean 4 theorems on rounding stability over ordered fields (binary and decimal grids proved) + kernel-evaluated tables + correspondence of the rounding relations with the runtime + whole-document round-trip oracle (constructed, loaded from generated files, and such files with one item removed)',
)


def strip(s):
    for g in s['geometries']:
        g.pop('vertices', None)
    return s


def f32_cases(rng, n):
    vals = []
    for k in range(-45, 39):
        base = float(numpy.float32(10.0 ** k)) if -45 <= k <= 38 else 1.0
        vals.append(base)
    for k in range(-149, 128, 3):
        vals.append(float(numpy.float32(2.0 ** k)))
    out = []
    for v in vals:
        f = numpy.float32(v)
        for step in (0, 1, -1, 2, -2, 5):
            g = f
            for _ in range(abs(step)):
                g = numpy.nextafter(g, numpy.float32(numpy.inf if step > 0 else -numpy.inf), dtype=numpy.float32)
            out.append(float(g))
    while len(out) < n:
        k = rng.random()
        if k < 0.4:
            bits = rng.getrandbits(31)
            v = numpy.array([bits], dtype=numpy.uint32).view(numpy.float32)[0]
        elif k < 0.7:
            v = numpy.float32(rng.choice([1.0, 10.0]) ** 0 * rng.uniform(0.9999, 1.0001) * 10.0 ** rng.randint(-40, 8))
        else:
            v = numpy.float32(rng.uniform(-1e6, 1e6))
        v = float(v)
        if v != v or v in (float('inf'), float('-inf')) or v == 0.0:
            continue
        out.append(v if rng.random() < 0.8 else -v)
    return [v for v in out if v == v and abs(v) != float('inf') and v != 0.0][:n]


def writer_text(x):
    """what FloatSource.save writes for one value"""
    from collada import source
    s = source.FloatSource('s', numpy.array([x], dtype=numpy.float32), ('X',))
    s.save()
    from collada.common import tag
    return s.xmlnode.find(tag('float_array')).text


def parser_value(text):
    """what FloatSource.load reads from that text"""
    from collada import source
    from collada.common import E
    import collada
    node = E.source(E.float_array(text, count='1', id='s-array'),
                    E.technique_common(E.accessor(E.param(type='float', name='X'), count='1', stride='1', source='#s-array')), id='s')
    doc = collada.Collada()
    return float(source.FloatSource.load(doc, {}, node).data[0][0])


def frac(x):
    f = Fraction(x)
    return '%d/%d' % (f.numerator, f.denominator)


def num_case(x):
    t = writer_text(x)
    b = parser_value(t)
    t2 = writer_text(b)
    b2 = parser_value(t2)
    return dict(x=x, text=t, b=b, text2=t2, b2=b2)


def doc_roundtrip(doc, label):
    """returns None or (sig, what)"""
    import collada
    try:
        s0 = strip(snap.snapshot(doc, norm7=True, errors=False, derive_matrix=True))
    except Exception as e:
        return ('model-unreadable:' + type(e).__name__, '%s: reading the public attributes of the model raised %s: %s' % (label, type(e).__name__, str(e)[:120]))
    b0 = io.BytesIO()
    try:
        doc.write(b0)
    except Exception as e:
        ns = doc.xmlnode.getroot().tag.split('}')[0].lstrip('{') if doc.xmlnode is not None else ''
        if ns and ns != 'http://www.collada.org/2005/11/COLLADASchema':
            return ('write:non-default-namespace', '%s: a document in namespace %s loads but write() raises %s' % (label, ns, type(e).__name__))
        return ('write:' + type(e).__name__, '%s: write raised %s: %s' % (label, type(e).__name__, str(e)[:160]))
    try:
        d1 = collada.Collada(io.BytesIO(b0.getvalue()))
    except Exception as e:
        return ('reload:' + type(e).__name__, '%s: the written document does not load: %s %s' % (label, type(e).__name__, str(e)[:160]))
    s1 = strip(snap.snapshot(d1, errors=False))
    df = snap.diff(s0, s1)
    if df:
        where = re.sub(r'\[\d+\]', '[]', df[0].split(':')[0])
        return ('gen1-differs:' + where, '%s: reloaded model differs from the model: %s' % (label, '; '.join(df[:3])))
    if d1.errors:
        return ('gen1-errors', '%s: reload recorded errors %s' % (label, [type(e).__name__ for e in d1.errors]))
    b1 = io.BytesIO()
    d1.write(b1)
    d2 = collada.Collada(io.BytesIO(b1.getvalue()))
    b2 = io.BytesIO()
    d2.write(b2)
    if b1.getvalue() != b2.getvalue():
        return ('not-fixed-point:bytes', '%s: generation 1 and generation 2 are written with different bytes' % label)
    df = snap.diff(snap.snapshot(d1), snap.snapshot(d2))
    if df:
        return ('not-fixed-point:model', '%s: generation 2 model differs from generation 1: %s' % (label, '; '.join(df[:3])))
    return None


def corpus_docs():
    """(label, loader thunk) for every shipped document, plus namespace / no-<scene> variants"""
    import collada
    out = []
    for path in sorted(glob.glob(os.path.join(c02.DATA, '*'))):
        low = path.lower()
        if low.endswith(('.dae', '.zip', '.zae')):
            out.append((os.path.basename(path), (lambda p=path: collada.Collada(p))))
            if low.endswith('.dae'):
                data = open(path, 'rb').read()
                if b'<scene>' in data:
                    cut = re.sub(rb'<scene>.*?</scene>', b'', data, flags=re.S)
                    out.append((os.path.basename(path) + '[no <scene>]', (lambda d=cut: collada.Collada(io.BytesIO(d)))))
                if b'http://www.collada.org/2005/11/COLLADASchema' in data:
                    ns15 = data.replace(b'http://www.collada.org/2005/11/COLLADASchema', b'http://www.collada.org/2008/03/COLLADASchema')
                    out.append((os.path.basename(path) + '[1.5 namespace]', (lambda d=ns15: collada.Collada(io.BytesIO(d)))))
    return out


def run(ctx):
    ctx.rule = ('numbers: float32 values 0, +-1, +-2, +-5 ulps around every power of ten and every third power of two in range, random bit patterns, '
                'values near decade boundaries; documents: models built through the public constructors (every primitive kind and input layout, all light / '
                'camera / effect variants, nested nodes with instance_node, asset metadata, boundary-heavy float32 data) and every loadable shipped document '
                'plus its no-<scene> and 1.5-namespace variants; non-trivial = document with at least one library object; distinct by seed / file')
    reported = set()

    def report(res, rep):
        if res and res[0] not in reported:
            reported.add(res[0])
            ctx.violation('c01:' + res[0] if not res[0].startswith('write:non-default') else res[0], res[1], rep)
    # ---- numbers
    xs = f32_cases(ctx.rng, ctx.n(4000, 150000))
    lines, cases = [], []
    for x in xs:
        c = num_case(x)
        cases.append(c)
        lines.append('num %s %s %s' % (frac(x), frac(Fraction(c['text'])), frac(c['b'])))
        ctx.count('num')
        if c['b2'] != c['b'] or c['text2'] != writer_text(c['b2']):
            report(('num-not-fixed', 'value %r: written %s, read %r, written again %s, read %r: not a fixed point from the first reload on'
                    % (x, c['text'], c['b'], c['text2'], c['b2'])), dict(kind='num', x=x))
        if c['text2'] != c['text']:
            ctx.count('num:text changes between generation 0 and 1')
    if ctx.lean_ok:
        ans = ctx.driver('C01', lines)
        for c, l, a in zip(cases, lines, ans):
            want_next = frac(abs(Fraction(c['text2'])))
            if a != 'dec7=true bin24=true next=%s' % want_next and 'corr:num' not in reported and 'num-not-fixed' not in reported:
                reported.add('corr:num')
                ctx.violation('corr:num', 'writer/parser and Pyc.NumText disagree on x=%r text=%s read=%r next text=%s: driver says %s' % (c['x'], c['text'], c['b'], c['text2'], a),
                              dict(kind='num', x=c['x']), found_input=False)
    ctx.case(dict(kind='numbers', n=len(xs), sample=[cases[i] for i in range(0, len(cases), max(1, len(cases) // 5))][:5]))
    # ---- constructed documents
    for i in range(ctx.n(120, 5000)):
        seed = ctx.rng.randrange(10 ** 9)
        opts = ctx.rng.choice([{}, dict(geoms=3, prims=5), dict(lights=4, cameras=4, effects=4), dict(nodes=5, depth=4), dict(ints=True)])
        if ctx.rng.random() < 0.5:
            opts = dict(opts, anyaxis=True)        # rotation axes need not be unit vectors
        try:
            doc = modelgen.build(seed, opts)
        except Exception as e:
            report(('build:' + type(e).__name__, 'constructing a model raised %s: %s' % (type(e).__name__, str(e)[:150])), dict(kind='constructed', seed=seed, opts=opts))
            continue
        nobj = sum(len(getattr(doc, l)) for l in ('geometries', 'lights', 'cameras', 'effects', 'materials', 'nodes', 'scenes', 'images'))
        ctx.case(dict(kind='constructed', seed=seed, opts=opts), nontrivial=nobj > 0)
        ctx.count('doc:constructed')
        report(doc_roundtrip(doc, 'constructed seed=%d' % seed), dict(kind='constructed', seed=seed, opts=opts))
    # ---- documents loaded from files pycollada did not write (vlib/docgen.py: strips, fans, bindings inside <vertices>, shared offsets, ...)
    import collada
    from vlib import docgen
    for i in range(ctx.n(80, 3000)):
        seed = ctx.rng.randrange(10 ** 9)
        try:
            doc = collada.Collada(io.BytesIO(docgen.generate(seed, dict(anim=False, perm=(i % 2 == 0)))))
        except Exception:
            ctx.count('docgen:not loadable')
            continue
        ctx.case(dict(kind='docgen', seed=seed, perm=(i % 2 == 0)))
        ctx.count('doc:loaded-from-generated-file')
        report(doc_roundtrip(doc, 'generated file seed=%d' % seed), dict(kind='docgen', seed=seed, perm=(i % 2 == 0)))
    # ---- "whenever a load succeeds the write succeeds and its output loads": generated files with ONE thing removed or emptied (an optional
    # attribute, an optional child, a text) that still load
    from vlib import faults
    import xml.etree.ElementTree as ET
    for i in range(ctx.n(25, 800)):
        seed = ctx.rng.randrange(10 ** 9)
        data = docgen.generate(seed, dict(anim=False))
        root = ET.fromstring(data)
        els = list(root.iter())
        groups = {}
        for st in faults.sites(root):
            if st[0] in ('dropattr', 'dropchild', 'emptied'):
                e = els[st[1]]
                extra = st[2] if isinstance(st[2], str) else (faults.local(list(e)[st[2]]) if st[0] == 'dropchild' else '')
                groups.setdefault((st[0], faults.local(e), extra), []).append(st)
        for key in sorted(groups, key=str):
            site = ctx.rng.choice(groups[key])
            try:
                bad, _ = faults.apply(data, site)
                doc = collada.Collada(io.BytesIO(bad))
            except Exception:
                continue        # not loadable: C08's subject
            ctx.count('doc:loadable-with-one-thing-missing')
            ctx.case(dict(kind='reduced', seed=seed, site=list(site)))
            res = doc_roundtrip(doc, 'generated file seed=%d without %s of <%s>' % (seed, key[2] or 'the text', key[1]))
            if res:
                res = ('reduced:%s:%s:%s' % (res[0].split(':')[0], key[1], key[2]), res[1])
            report(res, dict(kind='reduced', seed=seed, site=list(site)))
    # ---- shipped documents
    for label, thunk in corpus_docs():
        try:
            doc = thunk()
        except Exception as e:
            ctx.count('corpus:not loadable')
            continue
        ctx.case(dict(kind='corpus', file=label))
        ctx.count('doc:corpus')
        report(doc_roundtrip(doc, label), dict(kind='corpus', file=label))


def replay(ctx, rep):
    if rep.get('kind') == 'num':
        c = num_case(rep['x'])
        bad = c['b2'] != c['b']
        print('  %r' % c)
        return bad
    if rep.get('kind') == 'constructed':
        res = doc_roundtrip(modelgen.build(rep['seed'], rep.get('opts')), 'constructed seed=%d' % rep['seed'])
    elif rep.get('kind') == 'reduced':
        import collada
        from vlib import docgen, faults
        bad, _ = faults.apply(docgen.generate(rep['seed'], dict(anim=False)), tuple(rep['site']))
        res = doc_roundtrip(collada.Collada(io.BytesIO(bad)), 'generated file seed=%d with site %s removed' % (rep['seed'], rep['site']))
    elif rep.get('kind') == 'docgen':
        import collada
        from vlib import docgen
        res = doc_roundtrip(collada.Collada(io.BytesIO(docgen.generate(rep['seed'], dict(anim=False, perm=rep['perm'])))), 'generated file seed=%d' % rep['seed'])
    else:
        docs = dict(corpus_docs())
        res = doc_roundtrip(docs[rep['file']](), rep['file'])
    if res:
        print('  ' + res[1])
    return res is not None
