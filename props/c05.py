"""C05 — the loaded model says what the file says.

Correspondence: for every primitive of documents produced by the independent generator (vlib/docgen.py) the per-input index
arrays, the input table after <vertices> expansion, normalised component names and padded colours of the real loader vs
Pyc.Load.indexArray / column / expandInputs / normComponents / padRGBA (lean/drv/C05.lean).
Direct oracle: public snapshot of the loaded model == independent etree-only reading of the same bytes (vlib/xmlread.py).
"""
import io
import re
import xml.etree.ElementTree as ET

import numpy

from vlib import core, snap, docgen, xmlread

PID = 'C05'
LEAN_MODULES = ['Pyc.Model.Load']
META = dict(
    level_text=('Proof of the reading kernels + independent-reader exploration. Pyc/Props/C05.lean proves, for every stride, offset (shared or gapped) and stream, '
                'that entry k of shape i of the index array exposed for an input is stream[(perShape*i+k)*stride+offset] (index_selection, index_shape), the '
                '<vertices> expansion (expand_vertex, expand_keeps_others) and a characterisation of each documented normalisation (normComponents_spec, dropThird_get, '
                'padRGBA_spec, nodeName_*, cameraAspect_spec). These kernels are tied to the loader on every run; that the whole loaded model equals an '
                'independent reading of the file is decided by differential exploration over documents from a generator that does not use pycollada\'s writer.'),
    level_note=('Trusted: Lean kernel + standard axioms; Pyc/Model/Load.lean; the independent reader vlib/xmlread.py and the generator vlib/docgen.py (written from the '
                'COLLADA 1.4.1 specification); floats compared exactly as float32. "implementation = specification on all inputs" is by nature differential: the theorems '
                'cover the index/expansion/normalisation kernels, not the table lookups of the rest of the loader.'),
    technique='Lean 4 theorems on index de-interleaving, <vertices> expansion and normalisations + kernel correspondence with the loader + independent-reader differential oracle',
)


def prim_lines(data, doc):
    """protocol lines and the loader's answers for every primitive / source / colour of a loaded document"""
    from collada import material
    root = ET.fromstring(data)
    ns = root.tag.split('}')[0] + '}'
    lines, actual, names = [], [], []
    gi = 0
    for lib in root.findall(ns + 'library_geometries'):
        for g in lib.findall(ns + 'geometry'):
            mesh = g.find(ns + 'mesh')
            if mesh is None:
                continue
            geom = doc.geometries[gi]
            gi += 1
            verts = []
            for v in mesh.findall(ns + 'vertices'):
                verts.append('%s=%s' % (v.get('id'), ','.join('%s:%s' % (i.get('semantic'), i.get('source')[1:]) for i in v.findall(ns + 'input'))))
            # sources: component normalisation
            for s in mesh.findall(ns + 'source'):
                acc = s.find(ns + 'technique_common/' + ns + 'accessor')
                comps = [p.get('name') for p in acc.findall(ns + 'param')]
                lines.append('comps ' + ' '.join(comps))
                actual.append(' '.join(geom.sourceById[s.get('id')].components))
                names.append('comps')
            pi = 0
            for p in mesh:
                kind = p.tag[len(ns):]
                if kind not in ('triangles', 'lines', 'polylist', 'polygons', 'tristrips', 'trifans'):
                    continue
                prim = geom.primitives[pi]
                pi += 1
                ins = ['%s:%s:%s:%s' % (i.get('offset'), i.get('semantic'), i.get('source')[1:], i.get('set') if i.get('set') is not None else '_')
                       for i in p.findall(ns + 'input')]
                lines.append('expand %s ; %s' % (' '.join(verts), ' '.join(ins)))
                got = []
                # pycollada groups by semantic; compare per semantic in the order of the expanded list
                flat = []
                for sem in ('VERTEX', 'NORMAL', 'TEXCOORD', 'TEXTANGENT', 'TEXBINORMAL', 'COLOR', 'TANGENT', 'BINORMAL'):
                    for t in prim.sources.get(sem, []):
                        flat.append('%d:%s:%s:%s' % (t[0], t[1], t[2][1:], t[3] if t[3] is not None else '_'))
                actual.append(' '.join(sorted(flat)))
                names.append('expand')
                if kind in ('triangles', 'lines'):
                    pe = p.find(ns + 'p')
                    stream = (pe.text or '').split() if pe is not None else []
                    stride = max(int(i.get('offset')) for i in p.findall(ns + 'input')) + 1
                    per = 3 if kind == 'triangles' else 2
                    for sem, arr in (('VERTEX', prim.vertex_index), ('NORMAL', prim.normal_index)):
                        tup = prim.sources.get(sem, [])
                        if tup and arr is not None:
                            lines.append('idx %d %d %d ; %s' % (per, stride, tup[0][0], ' '.join(stream)))
                            actual.append(' '.join(','.join(str(int(x)) for x in row) for row in numpy.asarray(arr).tolist()))
                            names.append('idx')
                    for tup, arr in zip(prim.sources.get('TEXCOORD', []), prim.texcoord_indexset):
                        lines.append('idx %d %d %d ; %s' % (per, stride, tup[0], ' '.join(stream)))
                        actual.append(' '.join(','.join(str(int(x)) for x in row) for row in numpy.asarray(arr).tolist()))
                        names.append('idx')
                elif kind == 'polylist':
                    pe = p.find(ns + 'p')
                    stream = (pe.text or '').split() if pe is not None else []
                    stride = max(int(i.get('offset')) for i in p.findall(ns + 'input')) + 1
                    tup = prim.sources.get('VERTEX', [])
                    if tup and prim.vertex_index is not None:
                        lines.append('col %d %d ; %s' % (stride, tup[0][0], ' '.join(stream)))
                        actual.append(' '.join(str(int(x)) for x in numpy.asarray(prim.vertex_index).reshape(-1).tolist()))
                        names.append('col')
    for e in doc.effects:
        for prop in e.supported:
            v = getattr(e, prop)
            if isinstance(v, tuple) and all(float(x) == int(x) for x in v):
                # the colour as the file gives it is found again from the element
                pass
    return lines, actual, names


def colour_lines(data, doc):
    root = ET.fromstring(data)
    ns = root.tag.split('}')[0] + '}'
    lines, actual = [], []
    effs = [e for lib in root.findall(ns + 'library_effects') for e in lib.findall(ns + 'effect')]
    for el, e in zip(effs, doc.effects):
        for col in el.iter(ns + 'color'):
            parent = None
        shad = None
        for s in ('phong', 'lambert', 'blinn', 'constant'):
            shad = el.find('%sprofile_COMMON/%stechnique/%s%s' % (ns, ns, ns, s))
            if shad is not None:
                break
        if shad is None:
            continue
        for pn in shad:
            c = pn.find(ns + 'color')
            prop = pn.tag[len(ns):]
            if c is not None and prop in e.supported:
                vals = [float(x) for x in c.text.split()]
                if all(v in (0.0, 1.0) for v in vals) and isinstance(getattr(e, prop), tuple):
                    lines.append('pad ' + ' '.join(str(int(v)) for v in vals))
                    actual.append(' '.join(str(int(v)) for v in getattr(e, prop)))
    return lines, actual


def check_doc(data):
    """returns (result or None, doc or None): result = (sig, what)"""
    import collada
    try:
        doc = collada.Collada(io.BytesIO(data))
    except Exception as e:
        return ('load-failed:' + type(e).__name__, 'a well-formed generated document does not load: %s: %s' % (type(e).__name__, str(e)[:200])), None
    try:
        r = xmlread.read(data)
    except Exception as e:
        raise core.Infra('independent reader failed on a generated document: %r' % e)
    s = snap.snapshot(doc)
    keys = [k for k in s if k in r]
    df = snap.diff({k: s[k] for k in keys}, {k: r[k] for k in keys})
    if df:
        where = re.sub(r'\[\d+\]', '[]', df[0].split(':')[0])
        return ('model-differs:' + where, 'loaded model differs from an independent reading of the file: ' + '; '.join(df[:3])), doc
    if doc.errors:
        return ('errors-recorded', 'loading a well-formed document recorded errors %s' % [type(e).__name__ for e in doc.errors]), doc
    return None, doc


def run(ctx):
    ctx.rule = ('documents from vlib/docgen.py: all six primitive kinds (strips and fans with several <p>, runs of 0-7 corners), inputs in shuffled order '
                'with shared and gapped offsets, up to three texcoord sets, NORMAL/TEXCOORD inside <vertices>, U,V and S,T,P accessors, NaN tokens, six number '
                'formats and mixed whitespace, instance_node forward/backward/chained, <param ref>, newparams inside <technique>, cameras with all three parameters, '
                'foreign-namespace extras, unmodelled libraries, default-namespace and prefixed serialisation; non-trivial = document with at least one primitive; '
                'distinct by seed')
    reported = set()
    lines, actual, names, seeds = [], [], [], []
    for i in range(ctx.n(350, 15000)):
        seed = ctx.rng.randrange(10 ** 9)
        opts = dict(prefixed=(i % 4 == 0), perm=(i % 3 == 0))
        data = docgen.generate(seed, opts)
        res, doc = check_doc(data)
        nprim = 0 if doc is None else sum(len(g.primitives) for g in doc.geometries)
        ctx.case(dict(seed=seed, opts=opts, bytes=len(data), primitives=nprim), nontrivial=nprim > 0)
        ctx.count('docs')
        ctx.count('primitives', nprim)
        if res:
            if res[0] not in reported:
                reported.add(res[0])
                small = shrink(seed, opts, res[0])
                ctx.violation('c05:' + res[0], res[1], dict(kind='doc', seed=seed, opts=opts, removed=small))
            continue
        l, a, n = prim_lines(data, doc)
        l2, a2 = colour_lines(data, doc)
        lines += l + l2
        actual += a + a2
        names += n + ['pad'] * len(l2)
        seeds += [seed] * (len(l) + len(l2))
    for n in names:
        ctx.count('kernel:' + n)
    if ctx.lean_ok and lines:
        model = ctx.driver('C05', lines)
        for l, a, m, n, s in zip(lines, actual, model, names, seeds):
            if n == 'expand':
                m = ' '.join(sorted(m.split()))
            if a != m and ('corr:' + n) not in reported:
                reported.add('corr:' + n)
                ctx.violation('corr:' + n, 'loader and Pyc.Load disagree on %r: model %r, loader %r (document seed %d); the reader oracle found no failing input there' % (l[:300], m[:200], a[:200], s),
                              dict(kind='kernel', name=n, line=l, seed=s), found_input=False)
    if any(v['found_input'] for v in ctx.violations):
        ctx.violations[:] = [v for v in ctx.violations if v['found_input']]


def shrink(seed, opts, sig):
    """delete top-level library children one at a time while the failure persists; returns the list of deleted paths"""
    root = ET.fromstring(docgen.generate(seed, opts))
    removed = []

    def fails(r):
        res, _ = check_doc(ET.tostring(r))
        return res is not None and res[0] == sig
    changed = True
    while changed:
        changed = False
        for li, lib in enumerate(list(root)):
            for ci, ch in enumerate(list(lib)):
                lib.remove(ch)
                if fails(root):
                    removed.append('%s/%d' % (lib.tag.split('}')[-1], ci))
                    changed = True
                else:
                    lib.insert(ci, ch)
    return removed


def replay(ctx, rep):
    if rep.get('kind') != 'doc':
        print('  kernel divergence on %r' % rep.get('line'))
        return False
    res, _ = check_doc(docgen.generate(rep['seed'], rep['opts']))
    if res:
        print('  ' + res[1])
    return res is not None
