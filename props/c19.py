"""C19 — skin and morph controllers decode the file faithfully.

Own generator of controller documents (independent of pycollada's writer): a library of small
geometries, one <controller> (skin or morph) and a visual scene that instantiates it.  Every
document is rendered as XML bytes and loaded with collada.Collada(io.BytesIO(...)).

Three-way comparison per case:
  generator ground truth  <->  Lean model Pyc.Skin (lean/drv/C19.lean)  <->  pycollada
on: outcome class, per-vertex groups of index tuples and the (joint, weight) columns, joint
name -> inverse bind matrix pairs in order, bind shape matrix, identity of the source geometry,
morph base and (target, weight) pairs, bound skin matrix along every scene path, and that the
bound primitives are those of the source geometry (object identity and transformed vertices).
"""
import io

PID = 'C19'
META = dict(
    level_text=('Proof: Pyc/Props/C19.lean proves for every vcount vector, index stream, offset pair and source lengths that the '
                'accepted partition is exactly the sequence of vcount[i]-sized blocks of index tuples whose concatenation is the '
                'stream (partition_groups), that any other stream length or a negative count is Malformed (partition_reject), that '
                'the joint/weight columns are the entries at the two offsets in either order (offset_select), that acceptance is '
                'equivalent to every index being in range (joint_weight_in_range), that joint names are paired with the 16-entry '
                'blocks of the matrix source in order and any length mismatch is Malformed (joint_matrix_pairing), bind shape '
                'defaults to the identity, morph targets are zipped with weights in order, and that a skin bound through any scene '
                'tree gets path-product x bind-shape (bound_skin_matrix, over any monoid). The model is tied to '
                'collada/controller.py and ControllerNode on every run by loading generated documents from XML bytes.'),
    level_note=('Trusted: Lean kernel; axioms propext/Quot.sound/Classical.choice only; the hand-written model Pyc/Model/Skin.lean; the '
                'document generator, canonicaliser and line protocol in props/c19.py; numpy reshape/slicing/dot, xml.etree and CPython '
                'semantics are modelled. Joint index -1 (COLLADA: "refers to the bind shape") counts as in range. Documents use the '
                '1.4.1 namespace only (namespace independence of sources is C15). Matrices have small integer entries so float32 is exact.'),
    technique='Lean 4 proofs over list partitioning / a generic monoid + three-way correspondence (generator truth, Lean driver, pycollada loading XML bytes)',
)
LEAN_MODULES = ['Pyc.Model.Skin']

NS = 'http://www.collada.org/2005/11/COLLADASchema'
IDENT = [1, 0, 0, 0, 0, 1, 0, 0, 0, 0, 1, 0, 0, 0, 0, 1]


# ----------------------------------------------------------------------------- generator

def small_matrix(rng, kind=None):
    """4x4 affine matrix with small integer entries (row-major list of 16)"""
    kind = kind or rng.choice(['perm', 'trans', 'shear', 'scale', 'any'])
    m = list(IDENT)
    if kind == 'trans':
        m[3], m[7], m[11] = rng.randint(-3, 3), rng.randint(-3, 3), rng.randint(-3, 3)
    elif kind == 'scale':
        m[0], m[5], m[10] = rng.choice([-1, 1, 2]), rng.choice([-1, 1, 2]), rng.choice([-1, 1, 2])
    elif kind == 'perm':
        p = [0, 1, 2]
        rng.shuffle(p)
        for r in range(3):
            for c in range(3):
                m[4 * r + c] = (1 if p[r] == c else 0) * rng.choice([1, 1, -1])
        m[3] = rng.randint(-2, 2)
    elif kind == 'shear':
        m[1] = rng.randint(-2, 2)
        m[6] = rng.randint(-2, 2)
        m[7] = rng.randint(-2, 2)
    else:
        for r in range(3):
            for c in range(4):
                m[4 * r + c] = rng.randint(-2, 2)
    return m


def matmul(a, b):
    return [sum(a[4 * i + k] * b[4 * k + j] for k in range(4)) for i in range(4) for j in range(4)]


def gen_geom(rng, gid):
    nv = rng.randint(3, 6)
    verts = [[rng.randint(-3, 3) for _ in range(3)] for _ in range(nv)]
    prims = []
    for _ in range(rng.choice([1, 1, 2])):
        nt = rng.randint(1, 3)
        prims.append([[rng.randrange(nv) for _ in range(3)] for _ in range(nt)])
    return dict(id=gid, verts=verts, prims=prims)


def gen_tree(rng, depth=0):
    """scene node tree: ['N', matrix|None, [children]] / ['I'] (an <instance_controller>)"""
    kids = []
    n = rng.choice([1, 1, 2, 3]) if depth < 3 else 1
    for _ in range(n):
        if depth >= 3 or rng.random() < 0.5:
            kids.append(['I'])
        else:
            kids.append(gen_tree(rng, depth + 1))
    return ['N', None if rng.random() < 0.2 else small_matrix(rng), kids]


JOINT_NAMES = ['root', 'hip', 'knee', 'foot', 'arm', 'hand', 'head', 'tail']
SKIN_MUT = ['joint_oor', 'joint_oor', 'weight_oor', 'weight_oor', 'joint_neg', 'joint_m1', 'weight_neg', 'v_surplus', 'v_surplus',
            'v_short', 'v_short', 'vcount_neg', 'vcount_plus', 'vcount_minus', 'mats_short', 'mats_extra', 'mats_ragged',
            'names_extra', 'names_short', 'bind_len', 'geom_dangling', 'wj_short']
MORPH_MUT = ['len_targets', 'len_weights', 'target_dangling', 'method_bad', 'base_dangling']


def gen_skin(rng, big=False):
    ngeom = rng.randint(1, 3)
    geoms = [gen_geom(rng, 'g%d' % i) for i in range(ngeom)]
    src = rng.choice(geoms)['id']
    nj = rng.choice([0, 1, 1, 2, 3, 4, 5, 8] if not big else [8])
    names = JOINT_NAMES[:nj]
    rng.shuffle(names)
    if nj >= 2 and rng.random() < 0.08:
        names[-1] = names[0]            # a duplicated joint name: the mapping keeps the last matrix
    mats = []
    for _ in range(nj):
        mats.extend(small_matrix(rng))
    nw = rng.choice([0, 1, 2, 3, 3, 5, 5, 9])
    # the vertex_weights JOINT input normally names the same source as <joints>; sometimes its own
    wj_names = None
    if rng.random() < 0.15:
        wj_names = ['w%d' % i for i in range(rng.choice([0, 1, nj, nj + 2]))]
    nwj = nj if wj_names is None else len(wj_names)
    jo, wo = rng.choice([(0, 1), (0, 1), (0, 1), (1, 0), (1, 0), (1, 0), (0, 0), (0, 2), (2, 0), (1, 2), (2, 1)])
    nind = max(jo, wo) + 1
    nvert = rng.choice([0, 1, 2, 3, 3, 4, 4, 6] if not big else [12, 20])
    infl = []
    for _ in range(nvert):
        ct = rng.choice([0, 0, 1, 1, 2, 3, 4])
        if nwj == 0 or nw == 0 or rng.random() < 0.08:
            ct = 0
        grp = []
        for _ in range(ct):
            j = rng.randrange(nwj)
            w = rng.randrange(nw)
            if jo == wo:
                w = j = min(j, w)
            grp.append([j, w])
        infl.append(grp)
    if rng.random() < 0.06:
        infl = [[] for _ in infl]           # all-zero influence skin
    vcounts = [len(g) for g in infl]
    v = []
    for g in infl:
        for j, w in g:
            row = [rng.randint(0, 9) for _ in range(nind)]
            row[jo] = j
            row[wo] = w
            v.extend(row)
    bind = None if rng.random() < 0.35 else small_matrix(rng)
    case = dict(kind='skin', geoms=geoms, src=src, bind=bind, jkind=rng.choice(['Name', 'Name', 'IDREF']),
                names=names, mats=mats, wj=wj_names, nw=nw, jo=jo, wo=wo,
                inorder=rng.choice(['JW', 'WJ']), jorder=rng.choice(['JM', 'MJ']),
                vcounts=vcounts, v=v, tree=gen_tree(rng) if rng.random() < 0.8 else None, mut=None)
    return case


def mutate_skin(rng, case):
    """apply one malformation; returns the expected outcome class ('ok' for the harmless ones) or None if not applicable"""
    mut = rng.choice(SKIN_MUT)
    c = case
    nind = max(c['jo'], c['wo']) + 1
    nwj = len(c['names']) if c['wj'] is None else len(c['wj'])
    ninf = sum(c['vcounts'])
    exp = 'DaeMalformedError'
    if mut in ('joint_oor', 'joint_neg', 'joint_m1', 'weight_oor', 'weight_neg'):
        if ninf == 0 or (c['jo'] == c['wo'] and mut == 'joint_m1'):
            return None
        k = rng.randrange(ninf)
        if mut == 'joint_oor':
            c['v'][nind * k + c['jo']] = nwj + rng.choice([0, 0, 1, 5])
        elif mut == 'joint_neg':
            c['v'][nind * k + c['jo']] = -rng.choice([2, 2, 3, nwj + 1, nwj + 2])
        elif mut == 'joint_m1':
            c['v'][nind * k + c['jo']] = -1
            exp = 'ok'
        elif mut == 'weight_oor':
            c['v'][nind * k + c['wo']] = c['nw'] + rng.choice([0, 0, 1, 5])
        else:
            c['v'][nind * k + c['wo']] = -rng.choice([1, 1, 2, c['nw'], c['nw'] + 1])
    elif mut == 'v_surplus':
        c['v'] = c['v'] + [0] * rng.choice([1, nind, nind, nind + 1, 2 * nind])
    elif mut == 'v_short':
        if not c['v']:
            return None
        c['v'] = c['v'][:len(c['v']) - rng.choice([1, nind, min(len(c['v']), nind + 1)])]
    elif mut == 'vcount_neg':
        if not c['vcounts']:
            return None
        k = rng.randrange(len(c['vcounts']))
        c['vcounts'][k] = -rng.choice([1, 1, 2])
    elif mut == 'vcount_plus':
        if not c['vcounts']:
            c['vcounts'] = [1]
        else:
            c['vcounts'][rng.randrange(len(c['vcounts']))] += 1
    elif mut == 'vcount_minus':
        ks = [i for i, x in enumerate(c['vcounts']) if x > 0]
        if not ks:
            return None
        c['vcounts'][rng.choice(ks)] -= 1
    elif mut == 'mats_short':
        if not c['mats']:
            return None
        c['mats'] = c['mats'][:-16]
    elif mut == 'mats_extra':
        c['mats'] = c['mats'] + small_matrix(rng)
    elif mut == 'mats_ragged':
        n = rng.choice([1, 4, 15])
        if rng.random() < 0.5 and len(c['mats']) >= 16:
            c['mats'] = c['mats'][:-n]
        else:
            c['mats'] = c['mats'] + [1] * n
    elif mut == 'names_extra':
        c['names'] = c['names'] + ['extra']
    elif mut == 'names_short':
        if not c['names']:
            return None
        c['names'] = c['names'][:-1]
    elif mut == 'wj_short':
        # the vertex_weights JOINT source is shorter than the largest joint index used
        if ninf == 0:
            return None
        mj = max(c['v'][nind * k + c['jo']] for k in range(ninf))
        c['wj'] = ['w%d' % i for i in range(mj)]
    elif mut == 'bind_len':
        b = c['bind'] or list(IDENT)
        c['bind'] = b[:-1] if rng.random() < 0.5 else b + [0]
    elif mut == 'geom_dangling':
        c['src'] = 'nowhere'
        exp = 'DaeBrokenRefError'
    c['mut'] = mut
    return exp


def gen_morph(rng):
    ngeom = rng.randint(1, 6)
    geoms = [gen_geom(rng, 'g%d' % i) for i in range(ngeom)]
    src = rng.choice(geoms)['id']
    nt = rng.choice([0, 1, 2, 3, 4, 5])
    targets = [rng.choice(geoms)['id'] for _ in range(nt)]
    weights = [rng.randint(-8, 16) for _ in range(nt)]      # eighths
    case = dict(kind='morph', geoms=geoms, src=src, method=rng.choice([None, 'NORMALIZED', 'NORMALIZED', 'RELATIVE', 'RELATIVE']),
                targets=targets, weights=weights, inorder=rng.choice(['TW', 'WT']),
                tree=gen_tree(rng) if rng.random() < 0.5 else None, mut=None)
    return case


def mutate_morph(rng, case):
    mut = rng.choice(MORPH_MUT)
    c = case
    exp = 'DaeMalformedError'
    if mut == 'len_targets':
        if rng.random() < 0.5 and c['targets']:
            c['targets'] = c['targets'][:-1]
        else:
            c['targets'] = c['targets'] + [c['geoms'][0]['id']]
    elif mut == 'len_weights':
        if rng.random() < 0.5 and c['weights']:
            c['weights'] = c['weights'][:-1]
        else:
            c['weights'] = c['weights'] + [8]
    elif mut == 'target_dangling':
        if not c['targets']:
            return None
        c['targets'][rng.randrange(len(c['targets']))] = 'nowhere'
        exp = 'DaeBrokenRefError'
    elif mut == 'method_bad':
        c['method'] = rng.choice(['normalized', 'ADDITIVE', ''])
    elif mut == 'base_dangling':
        c['src'] = 'nowhere'
        exp = 'DaeBrokenRefError'
    c['mut'] = mut
    return exp


def gen_case(rng, big=False):
    """returns (case, expected outcome class from the generator's own knowledge)"""
    while True:
        if rng.random() < 0.72:
            c = gen_skin(rng, big)
            exp = 'ok'
            if rng.random() < 0.4:
                exp = mutate_skin(rng, c)
        else:
            c = gen_morph(rng)
            exp = 'ok'
            if rng.random() < 0.35:
                exp = mutate_morph(rng, c)
        if exp is not None:
            return c, exp


# ----------------------------------------------------------------------------- XML rendering

def ints(xs):
    return ' '.join(str(x) for x in xs)


def src_float(sid, values, params, stride, eighths=False):
    txt = ' '.join(('%g' % (x / 8.0)) for x in values) if eighths else ints(values)
    return ('<source id="%s"><float_array id="%s-a" count="%d">%s</float_array><technique_common>'
            '<accessor source="#%s-a" count="%d" stride="%d">%s</accessor></technique_common></source>'
            % (sid, sid, len(values), txt, sid, len(values) // max(stride, 1), stride,
               ''.join('<param name="%s" type="%s"/>' % p for p in params)))


def src_names(sid, values, kind, pname):
    arr = 'Name_array' if kind == 'Name' else 'IDREF_array'
    return ('<source id="%s"><%s id="%s-a" count="%d">%s</%s><technique_common>'
            '<accessor source="#%s-a" count="%d" stride="1"><param name="%s" type="%s"/></accessor></technique_common></source>'
            % (sid, arr, sid, len(values), ' '.join(values), arr, sid, len(values), pname, kind if kind == 'Name' else 'IDREF'))


def geom_xml(g):
    flat = [x for vtx in g['verts'] for x in vtx]
    prims = ''.join('<triangles count="%d"><input semantic="VERTEX" source="#%s-v" offset="0"/><p>%s</p></triangles>'
                    % (len(t), g['id'], ints([i for tri in t for i in tri])) for t in g['prims'])
    return ('<geometry id="%s"><mesh>%s<vertices id="%s-v"><input semantic="POSITION" source="#%s-pos"/></vertices>%s</mesh></geometry>'
            % (g['id'], src_float(g['id'] + '-pos', flat, [('X', 'float'), ('Y', 'float'), ('Z', 'float')], 3), g['id'], g['id'], prims))


def tree_xml(t):
    if t[0] == 'I':
        return '<instance_controller url="#ctl"/>'
    m = '' if t[1] is None else '<matrix>%s</matrix>' % ints(t[1])
    return '<node>%s%s</node>' % (m, ''.join(tree_xml(k) for k in t[2]))


def skin_xml(c):
    bind = '' if c['bind'] is None else '<bind_shape_matrix>%s</bind_shape_matrix>' % ints(c['bind'])
    srcs = [src_names('ctl-joints', c['names'], c['jkind'], 'JOINT'),
            src_float('ctl-mats', c['mats'], [('TRANSFORM', 'float4x4')], 16),
            src_float('ctl-weights', list(range(c['nw'])), [('WEIGHT', 'float')], 1)]
    wjsrc = 'ctl-joints'
    if c['wj'] is not None:
        wjsrc = 'ctl-wjoints'
        srcs.append(src_names('ctl-wjoints', c['wj'], c['jkind'], 'JOINT'))
    ji = ['<input semantic="JOINT" source="#ctl-joints"/>', '<input semantic="INV_BIND_MATRIX" source="#ctl-mats"/>']
    if c['jorder'] == 'MJ':
        ji.reverse()
    wi = ['<input semantic="JOINT" source="#%s" offset="%d"/>' % (wjsrc, c['jo']),
          '<input semantic="WEIGHT" source="#ctl-weights" offset="%d"/>' % c['wo']]
    if c['inorder'] == 'WJ':
        wi.reverse()
    return ('<controller id="ctl"><skin source="#%s">%s%s<joints>%s</joints><vertex_weights count="%d">%s<vcount>%s</vcount><v>%s</v>'
            '</vertex_weights></skin></controller>'
            % (c['src'], bind, ''.join(srcs), ''.join(ji), len(c['vcounts']), ''.join(wi), ints(c['vcounts']), ints(c['v'])))


def morph_xml(c):
    srcs = [src_names('ctl-targets', c['targets'], 'IDREF', 'MORPH_TARGET'),
            src_float('ctl-weights', c['weights'], [('MORPH_WEIGHT', 'float')], 1, eighths=True)]
    ti = ['<input semantic="MORPH_TARGET" source="#ctl-targets"/>', '<input semantic="MORPH_WEIGHT" source="#ctl-weights"/>']
    if c['inorder'] == 'WT':
        ti.reverse()
    method = '' if c['method'] is None else ' method="%s"' % c['method']
    return ('<controller id="ctl"><morph source="#%s"%s>%s<targets>%s</targets></morph></controller>'
            % (c['src'], method, ''.join(srcs), ''.join(ti)))


def doc_xml(c):
    ctl = skin_xml(c) if c['kind'] == 'skin' else morph_xml(c)
    scene = ''
    if c['tree'] is not None:
        scene = ('<library_visual_scenes><visual_scene id="vs">%s</visual_scene></library_visual_scenes>'
                 '<scene><instance_visual_scene url="#vs"/></scene>' % tree_xml(c['tree']))
    return ('<?xml version="1.0" encoding="utf-8"?>\n<COLLADA xmlns="%s" version="1.4.1"><asset><up_axis>Y_UP</up_axis></asset>'
            '<library_geometries>%s</library_geometries><library_controllers>%s</library_controllers>%s</COLLADA>'
            % (NS, ''.join(geom_xml(g) for g in c['geoms']), ctl, scene)).encode('utf-8')


# ----------------------------------------------------------------------------- ground truth (generator's own reading)

def tree_paths(t, acc=None):
    """bound matrices (row-major int lists) of every <instance_controller>, in document order, for bind shape = identity"""
    if t[0] == 'I':
        return [list(IDENT) if acc is None else acc]
    m = list(IDENT) if t[1] is None else t[1]
    here = m if acc is None else matmul(acc, m)
    out = []
    for k in t[2]:
        out.extend(tree_paths(k, here))
    return out


def fmt_skin(gidx, bind, joints, rows, jcols, wcols):
    """canonical text of a decoded skin: groups = skin[i] as index tuples, pairs = zip(joint_index[i], weight_index[i])"""
    return 'ok geom=%d bind=%s joints=%s groups=%s pairs=%s' % (
        gidx, ','.join(str(x) for x in bind),
        ';'.join('%s:%s' % (n, ','.join(str(x) for x in m)) for n, m in joints),
        ''.join('(%s)' % ' '.join(','.join(str(x) for x in r) for r in g) for g in rows),
        ''.join('(%s)' % ' '.join('%d:%d' % (j, w) for j, w in zip(js, ws)) + ('!' if len(js) != len(ws) else '')
                for js, ws in zip(jcols, wcols)) + ('!' if len(jcols) != len(wcols) else ''))


def truth_bound(c):
    if c['tree'] is None:
        return []
    bind = (c['bind'] or IDENT) if c['kind'] == 'skin' else IDENT
    return [matmul(p, bind) for p in tree_paths(c['tree'])]


# ----------------------------------------------------------------------------- the real implementation

def exact_ints(arr):
    """values of an integer-valued case as ints; anything that is not an integer stays a float (and then differs from the truth)"""
    import numpy
    a = numpy.asarray(arr, dtype=numpy.float64).reshape(-1)
    return [int(x) if numpy.isfinite(x) and x == int(x) else repr(float(x)) for x in a]


def errclass(e):
    import collada
    for cls in ('DaeMalformedError', 'DaeBrokenRefError', 'DaeIncompleteError', 'DaeUnsupportedError'):
        if isinstance(e, getattr(collada.common, cls)):
            return cls
    if isinstance(e, collada.common.DaeError):
        return 'DaeError:' + type(e).__name__
    return 'raw:' + type(e).__name__


def run_impl(c):
    """load the document with pycollada; returns (decoded line, bound matrices or error string, oracle problem or None)"""
    import collada
    import numpy
    data = doc_xml(c)
    try:
        doc = collada.Collada(io.BytesIO(data))
    except Exception as e:
        return 'err:' + errclass(e), None, None
    if len(doc.controllers) != 1:
        return 'err:no-controller-loaded', None, None
    ctl = doc.controllers[0]
    ids = [g.id for g in doc.geometries]
    problem = None

    def gindex(obj):
        for i, g in enumerate(doc.geometries):
            if g is obj:
                return i
        return -1
    if c['kind'] == 'morph':
        if not isinstance(ctl, collada.controller.Morph):
            return 'err:not-a-morph', None, None
        pairs = []
        if len(ctl) != len(ctl.target_list):
            problem = 'len(morph) differs from its target list'
        for i, (g, w) in enumerate(ctl.target_list):
            if ctl[i][0] is not g:
                problem = 'morph[i] differs from target_list[i]'
            pairs.append('%d:%s' % (gindex(g), exact_ints([float(w) * 8])[0]))
        line = 'ok base=%d pairs=%s' % (gindex(ctl.source_geometry), ','.join(pairs))
    else:
        if not isinstance(ctl, collada.controller.Skin):
            return 'err:not-a-skin', None, None
        rows = [[[int(x) for x in r] for r in ctl[i]] for i in range(len(ctl))]
        jrows = [[int(x) for x in ctl.joint_index[i]] for i in range(len(ctl.joint_index))]
        wrows = [[int(x) for x in ctl.weight_index[i]] for i in range(len(ctl.weight_index))]
        if len(ctl) != len(rows) or len(jrows) != len(rows) or len(wrows) != len(rows):
            problem = 'len(skin), joint_index and weight_index disagree on the number of vertices'
        joints = [(str(n), exact_ints(m)) for n, m in ctl.joint_matrices.items()]
        line = fmt_skin(gindex(ctl.geometry), exact_ints(ctl.bind_shape_matrix), joints, rows, jrows, wrows)
        # in-range oracle on what was accepted
        nwj = len(ctl.weight_joints)
        nw = len(ctl.weights)
        for js, ws in zip(jrows, wrows):
            for j, w in zip(js, ws):
                if not (-1 <= j < nwj) or not (0 <= w < nw):
                    problem = 'accepted skin has joint/weight index out of range: (%d, %d) with %d joints, %d weights' % (j, w, nwj, nw)
    bound = None
    if c['tree'] is not None:
        try:
            if doc.scene is None:
                return line, 'err:no-scene', problem
            objs = list(doc.scene.objects('controller'))
            bound = []
            for b in objs:
                if c['kind'] == 'skin':
                    if b.skin is not ctl:
                        problem = 'bound skin does not refer to the loaded skin'
                    if b.geometry.original is not ctl.geometry:
                        problem = 'bound skin geometry is not the source geometry'
                    M = exact_ints(b.geometry.matrix)
                    bound.append(M)
                    prims = list(b.primitives())
                    src = list(ctl.geometry.primitives)
                    if len(prims) != len(src) or any(p.primitive.original is not s for p, s in zip(prims, src)):
                        problem = 'primitives of the bound skin are not those of the source geometry'
                    else:
                        g = c['geoms'][ids.index(ctl.geometry.id)]
                        want = [[sum(M[4 * r + k] * (v + [1])[k] for k in range(4)) for r in range(3)] for v in g['verts']]
                        for p, tris in zip(prims, g['prims']):
                            got = exact_ints(p.primitive.vertex)
                            if got != [x for v in want for x in v]:
                                problem = 'bound primitive vertices are not (path x bind shape) applied to the source vertices'
                            if [int(x) for x in numpy.asarray(p.primitive.vertex_index).reshape(-1)] != [i for t in tris for i in t]:
                                problem = 'bound primitive indices differ from the source geometry'
                            if len(p) != len(tris):
                                problem = 'len(bound skin primitive) differs from the source primitive'
                else:
                    if b.original is not ctl:
                        problem = 'bound morph does not refer to the loaded morph'
                    bound.append(exact_ints(b.matrix))
        except Exception as e:
            bound = 'err:' + errclass(e)
    return line, bound, problem


# ----------------------------------------------------------------------------- reference outcome, protocol lines

def reference2(c):
    """(line, why): the decoded content the file states, or the error class the property demands, and the name of the
    construct that decides it — computed from the abstract case alone (no pycollada, no Lean): the generator's ground truth"""
    ids = [g['id'] for g in c['geoms']]
    MAL, REF = 'err:DaeMalformedError', 'err:DaeBrokenRefError'
    if c['src'] not in ids:
        return REF, 'source-geometry-dangling'
    gidx = ids.index(c['src'])
    if c['kind'] == 'morph':
        if c['method'] not in (None, 'NORMALIZED', 'RELATIVE'):
            return MAL, 'method-unknown'
        if len(c['targets']) != len(c['weights']):
            return MAL, 'targets-weights-length'
        if any(t not in ids for t in c['targets']):
            return REF, 'target-dangling'
        return ('ok base=%d pairs=%s' % (gidx, ','.join('%d:%d' % (ids.index(t), w) for t, w in zip(c['targets'], c['weights']))),
                'valid' if c['targets'] else 'no-targets')
    nind = max(c['jo'], c['wo']) + 1
    if c['bind'] is not None and len(c['bind']) != 16:
        return MAL, 'bind-shape-length'
    if len(c['mats']) % 16 != 0:
        return MAL, 'matrix-source-ragged'
    if len(c['mats']) != 16 * len(c['names']):
        return MAL, 'joints-matrices-length'
    if any(ct < 0 for ct in c['vcounts']):
        return MAL, 'vcount-negative'
    if len(c['v']) != nind * sum(c['vcounts']):
        return MAL, 'v-surplus' if len(c['v']) > nind * sum(c['vcounts']) else 'v-short'
    rows, at = [], 0
    for ct in c['vcounts']:
        rows.append([c['v'][nind * (at + k):nind * (at + k + 1)] for k in range(ct)])
        at += ct
    nwj = len(c['names']) if c['wj'] is None else len(c['wj'])
    why = 'valid' if sum(c['vcounts']) else ('no-influences' if c['vcounts'] else 'no-vertices')
    for g in rows:
        for r in g:
            if r[c['jo']] < -1:
                return MAL, 'joint-index-negative'
            if r[c['wo']] < 0:
                return MAL, 'weight-index-negative'
            if r[c['jo']] >= nwj:
                return MAL, 'joint-index-beyond-source'
            if r[c['wo']] >= c['nw']:
                return MAL, 'weight-index-beyond-source'
            if r[c['jo']] == -1:
                why = 'valid-joint-minus-one'
    d = {}
    for i, n in enumerate(c['names']):
        d[n] = c['mats'][16 * i:16 * i + 16]
    return fmt_skin(gidx, c['bind'] or IDENT, list(d.items()), rows, [[r[c['jo']] for r in g] for g in rows],
                    [[r[c['wo']] for r in g] for g in rows]), why


def reference(c):
    return reference2(c)[0]


def shape(c):
    """stable name of the construct a case exercises (used in signatures), derived from the content of the case"""
    return reference2(c)[1]


def csv(xs):
    return ','.join(str(x) for x in xs)


def tree_tokens(t):
    if t[0] == 'I':
        return ['I']
    out = ['N'] + [str(x) for x in (t[1] or IDENT)] + [str(len(t[2]))]
    for k in t[2]:
        out.extend(tree_tokens(k))
    return out


def lines_of(c):
    """protocol lines of a case: the decode request and, when a scene instantiates the controller, the binding request"""
    ids = csv(g['id'] for g in c['geoms'])
    if c['kind'] == 'skin':
        nwj = len(c['names']) if c['wj'] is None else len(c['wj'])
        first = ('skin geoms=%s src=%s bind=%s names=%s mats=%s nwj=%d nw=%d jo=%d wo=%d vc=%s v=%s'
                 % (ids, c['src'], '_' if c['bind'] is None else csv(c['bind']), csv(c['names']), csv(c['mats']),
                    nwj, c['nw'], c['jo'], c['wo'], csv(c['vcounts']), csv(c['v'])))
        bind = c['bind']
    else:
        first = ('morph geoms=%s src=%s method=%s targets=%s weights=%s'
                 % (ids, c['src'], '_' if c['method'] is None else c['method'], csv(c['targets']), csv(c['weights'])))
        bind = None
    out = [first]
    if c['tree'] is not None:
        ok_bind = bind is None or len(bind) == 16
        out.append('scene bind=%s tree=%s' % ('_' if bind is None or not ok_bind else csv(bind), ','.join(tree_tokens(c['tree']))))
    return out


def fmt_bound(ms):
    return 'ok ' + ';'.join(csv(m) for m in ms)


def judge(c):
    """run the real code on a case and evaluate the property directly.
    Returns (impl decode line, impl bound line or None, failure (signature, text) or None)"""
    want = reference(c)
    line, bound, problem = run_impl(c)
    tag = '%s:%s' % (c['kind'], shape(c))
    if line != want:
        if line.startswith('err:') and want.startswith('err:'):
            return line, None, (tag + ':' + line[4:], 'the file must be rejected as %s but loading ended with %s' % (want[4:], line[4:]))
        if line.startswith('err:'):
            return line, None, (tag + ':' + line[4:], 'a well-formed %s is not loaded: %s (the file says %s)' % (c['kind'], line[4:], want))
        if want.startswith('err:'):
            return line, None, (tag + ':accepted', 'the file must be rejected as %s but was accepted and decoded as %s' % (want[4:], line))
        return line, None, (tag + ':decoded-wrong', 'decoded %s but the file says %s' % (line, want))
    if problem:
        return line, None, (tag + ':oracle', problem)
    bline = None
    if line.startswith('ok') and c['tree'] is not None:
        wantb = fmt_bound(truth_bound(c))
        bline = bound if isinstance(bound, str) else fmt_bound(bound)
        if bline != wantb:
            return line, bline, ('bind:%s:%s' % (c['kind'], 'error' if bline.startswith('err') else 'matrix'),
                                 'binding through the scene gives %s, path x bind shape is %s' % (bline, wantb))
    return line, bline, None


def shrink(c, sig):
    """greedy structural shrinking that keeps the failure signature"""
    import copy

    def fails(x):
        try:
            f = judge(x)[2]
        except Exception:
            return False
        return f is not None and f[0] == sig

    def candidates(x):
        if x['tree'] is not None:
            y = copy.deepcopy(x); y['tree'] = None; yield y
            y = copy.deepcopy(x); y['tree'] = ['N', None, [['I']]]; yield y
            if x['tree'][1] is not None:
                y = copy.deepcopy(x); y['tree'] = ['N', x['tree'][1], [['I']]]; yield y
        used = set([x['src']] + (x['targets'] if x['kind'] == 'morph' else []))
        for i, g in enumerate(x['geoms']):
            if g['id'] not in used and len(x['geoms']) > 1:
                y = copy.deepcopy(x); del y['geoms'][i]; yield y
        for g in range(len(x['geoms'])):
            if len(x['geoms'][g]['prims']) > 1:
                y = copy.deepcopy(x); y['geoms'][g]['prims'] = y['geoms'][g]['prims'][:1]; yield y
        if x['kind'] == 'morph':
            for i in range(len(x['targets'])):
                if i < len(x['weights']):
                    y = copy.deepcopy(x); del y['targets'][i]; del y['weights'][i]; yield y
            return
        if x['bind'] is not None and len(x['bind']) == 16:
            y = copy.deepcopy(x); y['bind'] = None; yield y
        if x['wj'] is not None:
            y = copy.deepcopy(x); y['wj'] = None; yield y
        nind = max(x['jo'], x['wo']) + 1
        if all(ct >= 0 for ct in x['vcounts']):
            at = 0
            for i, ct in enumerate(x['vcounts']):
                y = copy.deepcopy(x)
                del y['vcounts'][i]
                del y['v'][nind * at:nind * (at + ct)]
                yield y
                at += ct
        if x['names'] and len(x['mats']) >= 16:
            y = copy.deepcopy(x); y['names'] = y['names'][:-1]; y['mats'] = y['mats'][:-16]; yield y
        if x['nw'] > 0:
            y = copy.deepcopy(x); y['nw'] -= 1; yield y
        if (x['jo'], x['wo']) not in ((0, 1), (1, 0)) and len(x['v']) == nind * sum(max(ct, 0) for ct in x['vcounts']):
            y = copy.deepcopy(x)
            rows = [x['v'][nind * k:nind * (k + 1)] for k in range(len(x['v']) // nind)]
            y['jo'], y['wo'] = 0, 1
            y['v'] = [e for r in rows for e in (r[x['jo']], r[x['wo']])]
            yield y

    cur = c
    progress = True
    steps = 0
    while progress and steps < 200:
        progress = False
        for y in candidates(cur):
            steps += 1
            if fails(y):
                cur = y
                progress = True
                break
    return cur


def directed_cases():
    """fixed corpus: the constructs that failed on the pinned tree (each must now pass) and the edge shapes"""
    g = dict(id='g0', verts=[[0, 0, 0], [1, 0, 0], [0, 1, 0]], prims=[[[0, 1, 2]]])
    m1 = [1, 0, 0, 1, 0, 1, 0, 2, 0, 0, 1, 3, 0, 0, 0, 1]
    m2 = [0, -1, 0, 0, 1, 0, 0, 0, 0, 0, 1, 0, 0, 0, 0, 1]
    tree = ['N', m1, [['N', m2, [['I']]], ['I']]]

    def skin(**kw):
        c = dict(kind='skin', geoms=[g], src='g0', bind=m2, jkind='Name', names=['root', 'hip'], mats=m1 + m2, wj=None, nw=3,
                 jo=0, wo=1, inorder='JW', jorder='JM', vcounts=[2, 0, 1], v=[0, 0, 1, 2, 1, 1], tree=tree, mut=None)
        c.update(kw)
        return c

    def morph(**kw):
        c = dict(kind='morph', geoms=[g, dict(g, id='g1')], src='g0', method=None, targets=['g1', 'g0'], weights=[4, 8],
                 inorder='TW', tree=tree, mut=None)
        c.update(kw)
        return c
    return [
        skin(), skin(jo=1, wo=0, inorder='WJ'), skin(bind=None), skin(jkind='IDREF'),
        skin(vcounts=[0, 0, 0], v=[]), skin(vcounts=[0, 0], v=[], nw=0), skin(vcounts=[0], v=[], names=[], mats=[]),
        skin(vcounts=[], v=[]), skin(vcounts=[], v=[], names=[], mats=[], nw=0),
        skin(v=[0, 0, 1, 2, 1, 1, 0], mut='v_surplus'), skin(v=[0, 0, 1, 2, 1, 1, 0, 0], mut='v_surplus'),
        skin(v=[0, 0, 1, 2, 1], mut='v_short'), skin(vcounts=[2, 0, 0], mut='vcount_minus'), skin(vcounts=[2, 0, 2], mut='vcount_plus'),
        skin(vcounts=[-1], v=[0, 0], mut='vcount_neg'), skin(vcounts=[3, -1, 1], mut='vcount_neg'),
        skin(v=[0, 0, 2, 2, 1, 1], mut='joint_oor'), skin(v=[0, 0, 1, 3, 1, 1], mut='weight_oor'),
        skin(v=[0, 0, -2, 2, 1, 1], mut='joint_neg'), skin(v=[0, 0, 1, -1, 1, 1], mut='weight_neg'), skin(v=[0, 0, -1, 2, 1, 1], mut='joint_m1'),
        skin(mats=m1, mut='mats_short'), skin(mats=m1 + m2 + [1], mut='mats_ragged'), skin(mats=m1 + m2[:-3], mut='mats_ragged'),
        skin(names=['root'], mut='names_short'), skin(bind=m2[:-1], mut='bind_len'), skin(src='zz', mut='geom_dangling'),
        skin(names=['hip', 'hip']), skin(wj=['a', 'b', 'c']), skin(wj=['a'], mut='wj_short'),
        morph(), morph(method='RELATIVE'), morph(method='NORMALIZED', inorder='WT'), morph(targets=[], weights=[]),
        morph(targets=['g1'], mut='len_targets'), morph(weights=[4], mut='len_weights'), morph(targets=['g1', 'zz'], mut='target_dangling'),
        morph(method='relative', mut='method_bad'), morph(src='zz', mut='base_dangling'),
    ]


def run(ctx):
    ctx.rule = ('own generator of controller documents rendered as XML bytes: 1-6 geometries, a skin (0-8 joints in a Name_array or '
                'IDREF_array, inverse bind matrices with small integer entries, 0-9 weights, 0-6 vertices (12-20 in the large variant) '
                'with 0-4 influences each, JOINT/WEIGHT offsets (0,1) (1,0) (0,0) and gapped (0,2) (2,0) (1,2) (2,1), inputs in either XML order, '
                'bind shape present or absent, vertex_weights JOINT input sharing the <joints> source or its own) or a morph (0-5 targets, '
                'method absent/NORMALIZED/RELATIVE), instantiated 1..n times in a node tree of depth <= 4 with integer matrices; about 40% '
                'carry exactly one malformation (out-of-range / negative joint or weight index, surplus or short <v>, vcount too big, too '
                'small or negative, matrix source short/long/ragged, name list short/long, bind shape of 15/17 values, dangling geometry, '
                'morph length mismatch, unknown method, dangling target); plus a fixed corpus of 39 directed documents. Non-trivial = a '
                'skin with at least one influence, a morph with at least one target, or a document carrying a malformation; distinct = '
                'distinct abstract document')
    ncases = ctx.n(2500, 60000)
    cases = directed_cases()
    for i in range(ncases):
        c, exp = gen_case(ctx.rng, big=ctx.thorough and i % 50 == 0)
        want = reference(c)
        if (want[4:] if want.startswith('err:') else 'ok') != exp:
            raise AssertionError('generator inconsistent: mutation %r expects %s, reference says %s' % (c['mut'], exp, want))
        cases.append(c)
    lines = []
    for c in cases:
        lines.extend(lines_of(c))
    model = ctx.driver('C19', lines) if ctx.lean_ok else None
    pos = 0
    reported = set()
    import warnings
    warnings.simplefilter('ignore')
    for c in cases:
        ls = lines_of(c)
        want = reference(c)
        line, bline, bad = judge(c)
        ninf = sum(max(x, 0) for x in c['vcounts']) if c['kind'] == 'skin' else len(c['targets'])
        ctx.case(dict(c, geoms=[g['id'] for g in c['geoms']]), nontrivial=bool(ninf > 0 or c['mut']))
        ctx.count('kind:' + c['kind'])
        ctx.count('shape:%s:%s' % (c['kind'], shape(c)))
        ctx.count('malformation:%s' % c['mut'])
        ctx.count('outcome:' + (line[4:] if line.startswith('err:') else 'ok'))
        if c['kind'] == 'skin':
            ctx.count('offsets:%d,%d/%s' % (c['jo'], c['wo'], c['inorder']))
            ctx.count('joints:' + c['jkind'])
            ctx.count('bind_shape:' + ('absent' if c['bind'] is None else 'present'))
            ctx.count('influences:' + ('0' if ninf == 0 else '1-4' if ninf <= 4 else '5+'))
            if any(x == 0 for x in c['vcounts']) and ninf > 0:
                ctx.count('influences:mixed-with-zero-count-vertices')
        else:
            ctx.count('morph-targets:%d' % len(c['targets']))
            ctx.count('morph-method:%s' % c['method'])
        if bline is not None:
            ctx.count('bound-instances', len(truth_bound(c)))
        if bad:
            if bad[0] not in reported:
                reported.add(bad[0])
                small = shrink(c, bad[0])
                _, _, b2 = judge(small)
                b2 = b2 or bad
                ctx.violation(b2[0], '%s [%s]' % (b2[1], b2[0]), dict(kind='oracle', case=small, xml=doc_xml(small).decode('utf-8')))
        elif model is not None:
            got = model[pos:pos + len(ls)]
            mine = [line] + ([bline] if len(ls) > 1 else [])
            if len(ls) > 1 and bline is None:
                mine = [line, got[1]]      # document rejected: nothing is bound, nothing to compare
            if got != mine:
                i = 0 if got[0] != mine[0] else 1
                sig = 'corr:%s:%s:%s' % (c['kind'], shape(c), 'decode' if i == 0 else 'bind')
                if sig not in reported:
                    reported.add(sig)
                    ctx.violation(sig, 'correspondence Pyc.Skin <-> collada/controller.py broke on %r: model %r, implementation %r (= generator '
                                  'ground truth); the direct oracle found no failing input on this case, so the theorems of '
                                  'Pyc/Props/C19.lean no longer describe the code' % (ls[i][:300], got[i], mine[i]),
                                  dict(kind='correspondence', case=c, lines=ls, model=got, impl=mine), found_input=False)
        pos += len(ls)
    ctx.assumptions.append('geometry ids are distinct; documents use the COLLADA 1.4.1 namespace; integer-valued matrices, so float32 arithmetic is '
                           'exact; joint index -1 is in range (bind shape); numpy, xml.etree and CPython semantics are modelled')


def replay(ctx, rep):
    import warnings
    warnings.simplefilter('ignore')
    c = rep['case']
    if rep.get('kind') == 'correspondence':
        model = ctx.driver('C19', rep['lines'])
        line, bline, bad = judge(c)
        mine = [line] + ([bline if bline is not None else model[1]] if len(rep['lines']) > 1 else [])
        if bad:
            print('  ' + bad[1])
        elif model != mine:
            print('  model %r\n  impl  %r' % (model, mine))
        return bad is not None or model != mine
    _, _, bad = judge(c)
    if bad:
        print('  %s [%s]' % (bad[1], bad[0]))
    return bad is not None
