"""C04 correspondences: (a) the Lean validator over the generated content-model table vs Xerces on written documents and
structural mutants of them (validates translators/xsd_table.py); (b) the emitter functions of Pyc/Model/Schema.lean vs the
child sequences found in real written documents."""
import random
import xml.etree.ElementTree as ET

from vlib import xsdval

NS = '{http://www.collada.org/2005/11/COLLADASchema}'
OUTSIDE = ('cvc-datatype', 'cvc-id', 'cvc-attribute.3', 'cvc-pattern', 'cvc-identity', 'cvc-enumeration', 'cvc-minInclusive', 'cvc-length',
           'cvc-type.3', 'cvc-complex-type.2.2', 'cvc-complex-type.3.2.2', 'cvc-elt.1')


def tokens(root):
    out = []

    def walk(el, in_any):
        name = el.tag[len(NS):] if el.tag.startswith(NS) else '*any*'
        kids = [c for c in el if isinstance(c.tag, str)]
        # below <extra><technique> anything goes (xs:any): the table leaves that context out
        out.append('%s|%s|%d' % (name, ','.join(sorted(a for a in el.attrib if not a.startswith('{'))), len(kids)))
        for c in kids:
            walk(c, in_any)
    walk(root, False)
    return 'tree ' + ' '.join(out)


def mutate(root, rng):
    """one structural mutation somewhere in the COLLADA-namespace part of the tree; returns description or None"""
    els = [e for e in root.iter() if e.tag.startswith(NS) and not any(a.tag == NS + 'extra' for a in ancestors(root, e))]
    for _ in range(20):
        el = rng.choice(els)
        k = rng.choice(['swap', 'drop', 'dup', 'dropattr', 'move'])
        kids = list(el)
        if k == 'swap' and len(kids) >= 2:
            i = rng.randrange(len(kids) - 1)
            if kids[i].tag == kids[i + 1].tag:
                continue
            el[i], el[i + 1] = kids[i + 1], kids[i]
            return 'swap children %d,%d of %s' % (i, i + 1, el.tag[len(NS):])
        if k == 'drop' and kids:
            i = rng.randrange(len(kids))
            el.remove(kids[i])
            return 'drop child %s of %s' % (kids[i].tag[len(NS):], el.tag[len(NS):])
        if k == 'dup' and kids:
            i = rng.randrange(len(kids))
            import copy
            el.insert(i, copy.deepcopy(kids[i]))
            return 'duplicate child %s of %s' % (kids[i].tag[len(NS):], el.tag[len(NS):])
        if k == 'dropattr' and el.attrib:
            a = rng.choice(sorted(el.attrib))
            del el.attrib[a]
            return 'drop attribute %s of %s' % (a, el.tag[len(NS):])
        if k == 'move' and len(kids) >= 2:
            i = rng.randrange(len(kids))
            c = kids[i]
            el.remove(c)
            el.append(c)
            if i == len(kids) - 1:
                continue
            return 'move child %s of %s to the end' % (c.tag[len(NS):], el.tag[len(NS):])
    return None


def ancestors(root, el):
    parent = {c: p for p in root.iter() for c in p}
    out = []
    while el in parent:
        el = parent[el]
        out.append(el)
    return out


def run(ctx, docs, child_lines, reported):
    rng = random.Random('c04t/%s' % ctx.seed)
    trees, xmls, descs = [], [], []
    for d in docs:
        root = ET.fromstring(d)
        trees.append(tokens(root)); xmls.append(d); descs.append('written document')
        for _ in range(3):
            r2 = ET.fromstring(d)
            what = mutate(r2, rng)
            if what:
                trees.append(tokens(r2)); xmls.append(ET.tostring(r2)); descs.append(what)
    xer = xsdval.validate(xmls)
    lean = ctx.driver('C04', trees)
    for t, (ok, msg), l, what in zip(trees, xer, lean, descs):
        ctx.count('validator:' + ('valid' if ok else 'invalid'))
        if l == 'bad-op':
            raise Exception('driver could not parse a tree')
        lv = (l == 'true')
        if lv == ok:
            continue
        if not ok and msg.startswith(OUTSIDE):
            ctx.count('validator:outside-translated-subset')
            continue
        if 'corr:xsd-table' not in reported and not any(v['found_input'] for v in ctx.violations):
            reported.add('corr:xsd-table')
            ctx.violation('corr:xsd-table', 'content-model table and Xerces disagree on a %s: Lean valid=%s, Xerces valid=%s (%s)' % (what, lv, ok, msg[:200]),
                          dict(kind='validator', what=what, tree=t[:2000]), found_input=False)
    lines, actual = [], []
    for d in docs:
        l, a = child_lines(d)
        lines += l
        actual += a
    for l, a, m in zip(lines, actual, ctx.driver('C04', lines) if lines else []):
        ctx.count('emit:' + l.split()[1])
        if a != m and 'corr:emit' not in reported and not any(v['found_input'] for v in ctx.violations):
            reported.add('corr:emit')
            ctx.violation('corr:emit', 'children written for %r are %r, the emitter model gives %r' % (l, a, m), dict(kind='emit', line=l), found_input=False)
