"""C09 — primitive indices are in range and arrays have the documented shapes.

Correspondence: random primitive specifications (kind, sources, input layout, index stream,
vcounts) are built on the real code twice — through Geometry.createTriangleSet / createLineSet /
createPolylist / createPolygons with an InputList, and by loading XML bytes with
collada.Collada(io.BytesIO(..)) — and through Pyc.Validate.construct (lean/drv/C09.lean).
Compared: verdict, error class, nindices, vcounts, and for every exposed pair
(vertex, vertex_index), (normal, normal_index), texcoord / textangent / texbinormal sets the
source array shape, the index array shape and its entries.
Direct oracle on the implementation (independent of the Lean model, from the generator's own
ground truth): a specification that the property calls malformed must raise
DaeMalformedError; on an accepted primitive every exposed index array has the documented shape,
holds exactly the de-interleaved column of the stream, every entry is a valid row of its
source, and source[index] is evaluated.
"""
import io

PID = 'C09'
META = dict(
    level_text=('Proof: Pyc/Props/C09.lean proves for the model Pyc.Validate.construct of FloatSource, '
                'Primitive._getInputsFromList, checkSource and the TriangleSet/LineSet/Polylist/Polygons constructors, for every '
                'number of inputs, every offset layout, every source length and every index stream: accept_sound (every entry of '
                'every exposed index view is below the row count of its source; views have shape Nx3 / Nx2 / one row per corner and '
                'are the de-interleaved columns; sources have the arity of their semantic), reject_complete (entry beyond a source, '
                'data length not a multiple of the stride, wrong arity, vcount total differing from the corners, ragged stream => '
                'DaeMalformedError), select_total (source[index] cannot fail after acceptance), no_raw (no non-DaeError outcome), '
                'polygons_whole. The model is tied to collada/ on every run by a differential check through the public constructors '
                'and through XML loading, and the property is evaluated directly on the real arrays, which is what yields replays.'),
    level_note=('Trusted: Lean kernel; axioms propext/Quot.sound/Classical.choice only; the hand-written model '
                'Pyc/Model/Validate.lean and the generator/canonicaliser in props/c09.py; numpy reshape/max/fancy indexing and the XML '
                'parser are modelled, not verified. For an empty index stream pycollada exposes zero-row views and deliberately validates '
                'nothing (collada/tests test_collada_empty_triangles loads an empty <triangles> over a source of another format), so the '
                'arity clauses of accept_sound / reject_complete assume a non-empty stream. Negative indices, '
                'sources with zero components, inputs without a VERTEX input and dangling references are outside the quantifier '
                '(unsigned streams, 1-8 well-formed inputs).'),
    technique='Lean 4 proof about a model of the validating constructors + differential correspondence through Geometry.create* and XML loading + direct array oracle',
)
LEAN_MODULES = ['Pyc.Model.Validate']

KINDS = ['triangles', 'lines', 'polylist', 'polygons']
WIDTH = dict(triangles=3, lines=2, polylist=1, polygons=1)
SEMS = ['VERTEX', 'NORMAL', 'TEXCOORD', 'TEXBINORMAL', 'TEXTANGENT', 'COLOR', 'TANGENT', 'BINORMAL']
CHECKED_ALL = ('TEXCOORD', 'TEXTANGENT', 'TEXBINORMAL')
ARITY = dict(TEXCOORD=2)
NAMES3 = [['X', 'Y', 'Z'], ['X', 'Y', 'Z'], ['X', 'Y', 'Z'], ['A', 'B', 'C'], ['R', 'G', 'B'], ['X', 'Y', 'Z', ''], ['X', 'Y', '', 'Z'], ['', '', '']]
NAMES2 = [['S', 'T'], ['S', 'T'], ['U', 'V'], ['A', 'B'], ['S', 'T', ''], ['', '']]
INT32MAX = 2 ** 31 - 1
NS = 'http://www.collada.org/2005/11/COLLADASchema'


# ----------------------------------------------------------------------------- ground truth

def src_stride(route, names):
    return 3 if (route == 'L' and names == ['S', 'T', 'P']) else len(names)


def src_shape(route, rawlen, names):
    """(rows, components) of a well-formed source as the primitive sees it"""
    if route == 'L' and names == ['S', 'T', 'P']:
        return rawlen // 3, 2
    return rawlen // len(names), len(names)


def eff_inputs(case):
    """the per-semantic table the primitive is built from: (offset, semantic, source index)"""
    keep = [(o, s, r) for (o, s, r, _) in case['inputs'] if r != 'v']
    app = []
    for (o, s, r, _) in case['inputs']:
        if s == 'VERTEX' and r == 'v':
            for vs, si in case['verts']:
                app.append((o, 'VERTEX' if vs == 'POSITION' else vs, si))
    return keep + app


def checked_inputs(table):
    out = []
    for sem in ('VERTEX', 'NORMAL'):
        xs = [t for t in table if t[1] == sem]
        if xs:
            out.append((sem, 0, xs[0]))
    for sem in CHECKED_ALL:
        for k, t in enumerate([t for t in table if t[1] == sem]):
            out.append((sem, k, t))
    return out


def truth(case):
    """reasons for which the property demands DaeMalformedError (empty list: no demand), plus
    the expected exposed columns for an acceptable case"""
    route, kind = case['route'], case['kind']
    reasons = []
    for rawlen, names in case['sources']:
        if rawlen % src_stride(route, names) != 0:
            reasons.append('src-stride')
            break
    table = eff_inputs(case)
    n = max(o for o, _, _ in table) + 1
    stream = [e for p in case['polys'] for e in p]
    k = WIDTH[kind]
    ragged = len(stream) % (k * n) != 0
    if kind == 'polygons' and any(len(p) % n for p in case['polys']):
        ragged = True
    if ragged:
        reasons.append('ragged')
    elif kind == 'polylist' and sum(case['vcounts']) != len(stream) // n:
        reasons.append('vcount-total')
    cols = []
    if not ragged and stream and 'src-stride' not in reasons:
        for sem, pos, (o, _, si) in checked_inputs(table):
            rawlen, names = case['sources'][si]
            rows, ncomp = src_shape(route, rawlen, names)
            col = stream[o::n]
            cols.append((sem, pos, col, rows))
            if any(e >= rows for e in col):
                reasons.append('oob:' + sem)
            if ncomp != ARITY.get(sem, 3):
                reasons.append('arity:' + sem)
    if not ragged and not stream and 'src-stride' not in reasons and 'vcount-total' not in reasons:
        # an empty primitive: nothing to index, but the property demands the component check all the same
        for sem, pos, (o, _, si) in checked_inputs(table):
            rawlen, names = case['sources'][si]
            if src_shape(route, rawlen, names)[1] != ARITY.get(sem, 3):
                reasons.append('arity-empty:' + sem)
    order = ['src-stride', 'ragged', 'vcount-total']
    reasons = sorted(set(reasons), key=lambda r: (order.index(r) if r in order else 3 if r.startswith('oob') else 4, r))
    return reasons, cols, n


# ----------------------------------------------------------------------------- generator

def gen_case(rng):
    kind = rng.choice(KINDS)
    route = rng.choice('CL')
    nin = rng.choice([1, 1, 2, 2, 3, 3, 4, 5, 6, 7, 8])
    sems = ['VERTEX'] + [rng.choice(['NORMAL', 'NORMAL', 'TEXCOORD', 'TEXCOORD', 'TEXCOORD', 'TEXTANGENT', 'TEXBINORMAL',
                                     'COLOR', 'TANGENT', 'BINORMAL', 'VERTEX', 'NORMAL']) for _ in range(nin - 1)]
    rng.shuffle(sems)
    mode = rng.choice(['shared', 'distinct', 'distinct', 'mixed', 'gapped'])
    if mode == 'shared':
        offs = [0] * nin
    elif mode == 'distinct':
        offs = list(range(nin))
        rng.shuffle(offs)
    elif mode == 'mixed':
        offs = [rng.randint(0, max(0, nin - 2)) for _ in range(nin)]
    else:
        offs = [rng.randint(0, nin + 2) for _ in range(nin)]
    sources = []
    inputs = []
    setno = {}
    for sem, o in zip(sems, offs):
        ar = ARITY.get(sem, 3)
        if sources and rng.random() < 0.15:
            cand = [i for i, (rl, nm) in enumerate(sources) if src_shape(route, rl, nm)[1] == ar]
            if cand:
                si = rng.choice(cand)
                inputs.append([o, sem, si, None])
                continue
        rows = rng.choice([0, 1, 1, 2, 3, 3, 4, 5, 6])
        if ar == 2:
            names = list(rng.choice(NAMES2 + ([['S', 'T', 'P']] if route == 'L' else [])))
        else:
            names = list(rng.choice(NAMES3))
        rawlen = rows * src_stride(route, names)
        sources.append([rawlen, names])
        st = None
        if sem in CHECKED_ALL and rng.random() < 0.7:
            st = setno.get(sem, 0)
            setno[sem] = st + 1
        inputs.append([o, sem, len(sources) - 1, st])
    verts = []
    if route == 'L':
        vin = [i for i in inputs if i[1] == 'VERTEX']
        first = vin[0]
        verts = [['POSITION', first[2]]]
        if rng.random() < 0.75:
            first[2] = 'v'
            for other in vin[1:]:
                if rng.random() < 0.3:
                    other[2] = 'v'
            if rng.random() < 0.35:
                vs = rng.choice(['NORMAL', 'NORMAL', 'TEXCOORD', 'COLOR', 'TEXTANGENT'])
                rows = rng.choice([0, 1, 2, 3, 4, 5])
                names = ['S', 'T'] if vs == 'TEXCOORD' else ['X', 'Y', 'Z']
                sources.append([rows * len(names), names])
                verts.append([vs, len(sources) - 1])
        if rng.random() < 0.05:
            # an input of another semantic that names <vertices>: dropped by the loader
            inputs.append([rng.randint(0, 2), rng.choice(['NORMAL', 'COLOR']), 'v', None])
    case = dict(kind=kind, route=route, sources=sources, verts=verts, inputs=inputs, vcounts=[], polys=[])
    table = eff_inputs(case)
    n = max(o for o, _, _ in table) + 1
    # rows of the sources behind each column (several inputs may share an offset)
    limit = {}
    for _, _, (o, _, si) in checked_inputs(table):
        rows = src_shape(route, *sources[si])[0]
        limit[o] = min(limit.get(o, 10 ** 9), rows)

    def corner():
        return [rng.randrange(limit.get(o, 7)) if limit.get(o, 7) > 0 else 0 for o in range(n)]

    nitems = rng.choice([0, 1, 1, 2, 2, 3, 4])
    if kind in ('triangles', 'lines'):
        case['polys'] = [[e for _ in range(nitems * WIDTH[kind]) for e in corner()]]
    else:
        vcs = [rng.choice([1, 2, 3, 3, 4, 5, 0]) for _ in range(nitems)]
        if route == 'L' and kind == 'polygons':
            vcs = [max(1, v) for v in vcs]
        if kind == 'polylist':
            case['vcounts'] = vcs
            case['polys'] = [[e for _ in range(sum(vcs)) for e in corner()]]
        else:
            case['polys'] = [[e for _ in range(v) for e in corner()] for v in vcs]
    # the malformed stream
    if rng.random() < 0.5:
        for _ in range(rng.choice([1, 1, 1, 2])):
            mutate(rng, case, n)
    if route == 'L' and kind == 'polygons':
        case['polys'] = [p for p in case['polys'] if p] if rng.random() < 0.5 else [p or [0] for p in case['polys']]
    return case, mode


def mutate(rng, case, n):
    kind, route = case['kind'], case['route']
    polys = case['polys']
    m = rng.choice(['oob', 'oob', 'oob', 'ragged', 'ragged', 'vcount', 'srclen', 'arity', 'shuffle', 'anycol'])
    table = eff_inputs(case)
    if m in ('oob', 'anycol'):
        nonempty = [p for p in polys if len(p) >= n]
        if not nonempty:
            return
        p = rng.choice(nonempty)
        if m == 'oob':
            o, _, si = rng.choice([t for _, _, t in checked_inputs(table)])
        else:
            o, _, si = rng.choice(table)
            if rng.random() < 0.3:
                o = rng.randrange(n)
        rows = src_shape(route, *case['sources'][si])[0]
        r = rng.randrange(len(p) // n)
        delta = rng.choice([0, 0, 0, 1, 1, 2, 3, 10, 1000, 65536, INT32MAX - rows, INT32MAX - rows + 1,
                            2 ** 32 - rows - 1, 2 ** 32 - rows, 2 ** 32 - rows + 1, 2 ** 40])
        p[r * n + o] = rows + delta if rng.random() < 0.9 else max(0, rows - 1)
    elif m == 'ragged':
        if polys and rng.random() < 0.9:
            p = rng.choice(polys)
            d = rng.randint(1, max(1, WIDTH[kind] * n - 1))
            if rng.random() < 0.5 and len(p) >= d:
                del p[len(p) - d:]
            else:
                p.extend([0] * d)
        elif kind == 'polygons':
            polys.append([0] * rng.randint(1, n + 1))
        else:
            polys[0].extend([0] * rng.randint(1, n + 1))
    elif m == 'vcount':
        if kind == 'polylist':
            vc = case['vcounts']
            c = rng.choice(['inc', 'dec', 'add', 'drop', 'swap'])
            if c == 'inc' and vc:
                vc[rng.randrange(len(vc))] += rng.choice([1, 1, 2, 2 ** 32])
            elif c == 'dec' and vc and max(vc) > 0:
                i = rng.choice([i for i, v in enumerate(vc) if v > 0])
                vc[i] -= 1
            elif c == 'add':
                vc.insert(rng.randint(0, len(vc)), rng.choice([0, 1, 3]))
            elif c == 'drop' and vc:
                del vc[rng.randrange(len(vc))]
            elif c == 'swap' and len(vc) > 1:
                i, j = rng.sample(range(len(vc)), 2)
                vc[i], vc[j] = vc[j], vc[i]
        elif kind == 'polygons' and len(polys) >= 2:
            # move entries from one <p> to another: the total stays a multiple of the stride
            i, j = rng.sample(range(len(polys)), 2)
            d = rng.randint(1, max(1, n))
            if len(polys[i]) > d:
                polys[j].extend(polys[i][-d:])
                del polys[i][-d:]
    elif m == 'srclen':
        s = rng.choice(case['sources'])
        s[0] += rng.choice([1, 1, 2, -1]) if s[0] > 0 else 1
    elif m == 'arity':
        o, sem, si = rng.choice(table)
        s = case['sources'][si]
        rows = src_shape(route, *s)[0] if s[0] % src_stride(route, s[1]) == 0 else 2
        names = list(rng.choice([['X'], ['S', 'T'], ['X', 'Y'], ['X', 'Y', 'Z'], ['X', 'Y', 'Z', 'W'], ['S', 'T', 'P'], ['U', 'V']]))
        s[1] = names
        s[0] = rows * src_stride(route, names)
    elif m == 'shuffle':
        for p in polys:
            rng.shuffle(p)


# ----------------------------------------------------------------------------- protocol line

def line_of(case):
    w = [case['kind'], case['route'], 'S']
    w += ['%d/%s' % (rl, ','.join(c or '_' for c in nm)) for rl, nm in case['sources']]
    w.append('V')
    w += ['%s/%d' % (vs, si) for vs, si in case['verts']]
    w.append('I')
    w += ['%d/%s/%s' % (o, s, r) for o, s, r, _ in case['inputs']]
    w.append('C')
    w += [str(v) for v in case['vcounts']]
    for p in case['polys']:
        w.append('P')
        w += [str(e) for e in p]
    return ' '.join(w)


# ----------------------------------------------------------------------------- the real code

def np_index(values, dt=None):
    import numpy
    if any(v > INT32MAX for v in values):
        return numpy.array(values, dtype=numpy.uint64 if max(values) >= 2 ** 63 else numpy.int64)
    return numpy.array(values, dtype=dt or numpy.int32)


def index_type(case):
    """the constructors take any integer array: one signed or unsigned type, of a width that holds every value, for all index arrays of the case
    (chosen by the values themselves, so a case replays the same way)"""
    import numpy
    allv = [v for p in case['polys'] for v in p] + list(case['vcounts'])
    if any(v > INT32MAX for v in allv):
        return None
    top = max(allv) if allv else 0
    fits = [numpy.int32, numpy.int64, numpy.uint32, numpy.uint64, numpy.int32] + ([numpy.uint16, numpy.int16] if top < 2 ** 15 else []) + ([numpy.uint8] if top < 2 ** 8 else [])
    return fits[(sum(allv) + len(allv)) % len(fits)]


def ref_text(r):
    """'v': the <vertices> element; 'x': a text that is no reference (no '#'; its tail names nothing); k: source k (dangling when there is no such source)"""
    return '#verts' if r == 'v' else 'nohash-s0' if r == 'x' else '#s%d' % r


def build_api(case):
    import numpy
    import collada
    from collada import source, geometry
    mesh = collada.Collada()
    srcs = [source.FloatSource('s%d' % i, numpy.arange(rl, dtype=numpy.float32), tuple(nm))
            for i, (rl, nm) in enumerate(case['sources'])]
    geom = geometry.Geometry(mesh, 'g', 'g', srcs)
    il = source.InputList()
    for o, s, r, st in case['inputs']:
        il.addInput(o, s, ref_text(r), None if st is None else str(st))
    kind = case['kind']
    dt = index_type(case)
    if kind == 'triangles':
        return geom.createTriangleSet(np_index(case['polys'][0], dt), il, 'm')
    if kind == 'lines':
        return geom.createLineSet(np_index(case['polys'][0], dt), il, 'm')
    if kind == 'polylist':
        return geom.createPolylist(np_index(case['polys'][0], dt), np_index(case['vcounts'], dt), il, 'm')
    return geom.createPolygons([np_index(p, dt) for p in case['polys']], il, 'm')


def xml_of(case, seps=(' ',)):
    def txt(vals, i=0):
        out = []
        for j, v in enumerate(vals):
            out.append(str(v))
            out.append(seps[(i + j) % len(seps)])
        return ''.join(out)
    parts = ['<?xml version="1.0" encoding="utf-8"?>\n<COLLADA xmlns="%s" version="1.4.1"><asset><created>2020-01-01T00:00:00</created>'
             '<modified>2020-01-01T00:00:00</modified></asset><library_geometries><geometry id="g" name="g"><mesh>' % NS]
    for i, (rl, nm) in enumerate(case['sources']):
        stride = max(1, len(nm))
        parts.append('<source id="s%d"><float_array id="s%d-array" count="%d">%s</float_array><technique_common>'
                     '<accessor source="#s%d-array" count="%d" stride="%d">%s</accessor></technique_common></source>'
                     % (i, i, rl, txt(range(rl), i), i, rl // stride, stride,
                        ''.join('<param name="%s" type="float"/>' % c for c in nm)))
    if case['verts']:
        parts.append('<vertices id="verts">%s</vertices>' % ''.join(
            '<input semantic="%s" source="#s%d"/>' % (vs, si) for vs, si in case['verts']))
    kind = case['kind']
    nitems = len(case['vcounts']) if kind == 'polylist' else len(case['polys']) if kind == 'polygons' else 0
    parts.append('<%s count="%d" material="m">' % (kind, nitems))
    for o, s, r, st in case['inputs']:
        parts.append('<input offset="%d" semantic="%s" source="%s"%s/>'
                     % (o, s, ref_text(r), '' if st is None else ' set="%d"' % st))
    if kind == 'polylist':
        parts.append('<vcount>%s</vcount>' % txt(case['vcounts']))
    for p in case['polys']:
        parts.append('<p>%s</p>' % txt(p, 1))
    parts.append('</%s></mesh></geometry></library_geometries></COLLADA>' % kind)
    return ''.join(parts).encode('utf-8')


def build_xml(case):
    import collada
    seps = [(' ',), (' ', '\n'), ('  ', ' ', '\t')][len(case['polys']) % 3]
    mesh = collada.Collada(io.BytesIO(xml_of(case, seps)))
    return mesh.geometries[0].primitives[0]


def classify(exc):
    from collada.common import DaeError
    if isinstance(exc, DaeError):
        return 'err:' + type(exc).__name__
    return 'raw:' + type(exc).__name__


def nats(xs):
    return ','.join(str(int(x)) for x in xs)


def show_view(src, idx):
    if src is None and idx is None:
        return 'None'
    if src is None or idx is None:
        return 'half-None'
    return '%dx%d|%s|%s' % (src.shape[0], src.shape[1], nats(idx.shape), nats(idx.reshape(-1).tolist()))


def show_set(srcs, idxs):
    if len(srcs) != len(idxs):
        return 'set-length-mismatch'
    return '[' + ';'.join(show_view(s, i) for s, i in zip(srcs, idxs)) + ']'


def pairs_of(prim):
    """every (semantic, position, source array, index array) the primitive exposes"""
    out = [('VERTEX', 0, prim.vertex, prim.vertex_index), ('NORMAL', 0, prim.normal, prim.normal_index)]
    for sem, a, b in (('TEXCOORD', prim.texcoordset, prim.texcoord_indexset),
                      ('TEXTANGENT', prim.textangentset, prim.textangent_indexset),
                      ('TEXBINORMAL', prim.texbinormalset, prim.texbinormal_indexset)):
        for k, (s, i) in enumerate(zip(a, b)):
            out.append((sem, k, s, i))
    return out


def run_impl(case):
    """returns (canonical answer, primitive or None)"""
    import warnings
    try:
        with warnings.catch_warnings():
            warnings.simplefilter('ignore')
            prim = build_api(case) if case['route'] == 'C' else build_xml(case)
    except Exception as e:   # noqa
        return classify(e), None
    try:
        vc = nats(prim.vcounts) if case['kind'] in ('polylist', 'polygons') else ''
        sel = 'ok'
        for sem, k, s, i in pairs_of(prim):
            if s is not None and i is not None:
                try:
                    s[i]
                except Exception:   # noqa
                    sel = 'fail'
        ans = ('ok stride=%d vcounts=%s vertex=%s normal=%s tex=%s tan=%s bin=%s select=%s'
               % (prim.nindices, vc, show_view(prim.vertex, prim.vertex_index), show_view(prim.normal, prim.normal_index),
                  show_set(prim.texcoordset, prim.texcoord_indexset), show_set(prim.textangentset, prim.textangent_indexset),
                  show_set(prim.texbinormalset, prim.texbinormal_indexset), sel))
    except Exception as e:   # noqa
        return 'ok exposing-raises:' + type(e).__name__, prim
    return ans, prim


def oracle(case, ans, prim):
    """the property evaluated on the implementation. Returns None or (reason, outcome, text)"""
    reasons, cols, n = truth(case)
    kind = case['kind']
    if reasons:
        if ans == 'err:DaeMalformedError':
            return None
        what = 'accepted' if ans.startswith('ok') else ans
        return (reasons[0], what,
                '%s via %s with defect %s is %s instead of being rejected with DaeMalformedError'
                % (kind, 'Geometry.create*' if case['route'] == 'C' else 'XML load', reasons, what))
    if not ans.startswith('ok'):
        return None      # the property does not demand acceptance; the correspondence decides
    if prim is None:
        return None
    if ans.startswith('ok exposing-raises'):
        return ('expose', ans.split(':')[1], 'accepted %s: reading the documented index/source properties raises %s' % (kind, ans.split(':')[1]))
    stream = [e for p in case['polys'] for e in p]
    ncorner = len(stream) // n
    try:
        pairs = pairs_of(prim)
    except Exception as e:   # noqa
        return ('expose', type(e).__name__, 'reading the properties raises')
    got = {}
    for sem, k, s, i in pairs:
        got[(sem, k)] = (s, i)
    if not stream:
        # an empty primitive is not validated; whatever it exposes must still be a zero-row array
        # of the documented shape that can be used to select from its source
        w = WIDTH[kind]
        shape = (0, w) if w > 1 else (0,)
        for (sem, k), (s, i) in sorted(got.items()):
            if s is None and i is None:
                continue
            if s is None or i is None:
                return ('empty', 'half-None', 'empty %s exposes only one of %s source / index' % (kind, sem))
            if tuple(i.shape) != shape:
                return ('shape:' + sem, 'wrong-shape', 'empty %s: %s index has shape %s, documented %s' % (kind, sem, tuple(i.shape), shape))
            try:
                s[i]
            except Exception as e:   # noqa
                return ('select:' + sem, type(e).__name__, 'empty %s: %s[%s_index] raises %s' % (kind, sem.lower(), sem.lower(), type(e).__name__))
        return None
    want = {(sem, k): (col, rows) for sem, k, col, rows in cols}
    if set(want) != set(k for k, v in got.items() if v[0] is not None or v[1] is not None):
        return ('coverage', 'missing-view', '%s exposes views %s but its inputs are %s' % (kind, sorted(got), sorted(want)))
    for (sem, k), (col, rows) in sorted(want.items()):
        s, i = got[(sem, k)]
        if s is None or i is None:
            return ('coverage', 'None-view', '%s %s[%d] is None on a non-empty primitive' % (kind, sem, k))
        w = WIDTH[kind]
        shape = (ncorner // w, w) if w > 1 else (ncorner,)
        if tuple(i.shape) != shape:
            return ('shape:' + sem, 'wrong-shape', '%s %s index has shape %s, documented %s' % (kind, sem, tuple(i.shape), shape))
        if i.reshape(-1).tolist() != col:
            return ('column:' + sem, 'wrong-entries', '%s %s index is %s, the stream column is %s' % (kind, sem, i.reshape(-1).tolist(), col))
        if s.ndim != 2 or s.shape[1] != ARITY.get(sem, 3) or s.shape[0] != rows:
            return ('srcshape:' + sem, 'wrong-shape', '%s %s source has shape %s' % (kind, sem, tuple(s.shape)))
        if i.size and (int(i.min()) < 0 or int(i.max()) >= len(s)):
            return ('oob:' + sem, 'accepted', '%s accepted with %s index %d beyond its source of %d rows' % (kind, sem, int(i.max()), len(s)))
        try:
            sel = s[i]
        except Exception as e:   # noqa
            return ('select:' + sem, type(e).__name__, '%s[%s_index] raises %s' % (sem.lower(), sem.lower(), type(e).__name__))
        if tuple(sel.shape) != shape + (s.shape[1],):
            return ('select:' + sem, 'wrong-shape', 'selection has shape %s' % (tuple(sel.shape),))
    if kind in ('polylist', 'polygons'):
        if int(sum(prim.vcounts)) != ncorner or len(prim) != len(prim.vcounts):
            return ('vcount-total', 'accepted', '%s accepted with vcounts %s for %d corners' % (kind, list(prim.vcounts), ncorner))
    return None


def failing(case):
    ans, prim = run_impl(case)
    return oracle(case, ans, prim)


def signature(case, bad):
    if bad[0].startswith('arity-empty:') and bad[1] == 'accepted':
        return 'arity-empty:accepted'       # one finding, whatever the kind, route and semantic (known_findings.json)
    return '%s:%s:%s:%s' % (case['route'], case['kind'], bad[0], bad[1])


def shrink(case, sig):
    import copy

    def still(c):
        try:
            b = failing(c)
        except Exception:   # noqa
            return False
        return b is not None and signature(c, b) == sig

    cur = copy.deepcopy(case)
    changed = True
    while changed:
        changed = False
        # drop inputs (never the last VERTEX)
        for i in range(len(cur['inputs']) - 1, -1, -1):
            c = copy.deepcopy(cur)
            del c['inputs'][i]
            if [x for x in c['inputs'] if x[1] == 'VERTEX'] and still(c):
                cur, changed = c, True
        # drop <p> lists / vcounts
        for key in ('polys', 'vcounts'):
            for i in range(len(cur[key]) - 1, -1, -1):
                c = copy.deepcopy(cur)
                del c[key][i]
                if (key != 'polys' or cur['kind'] == 'polygons') and still(c):
                    cur, changed = c, True
        # shorten streams
        for pi in range(len(cur['polys'])):
            for cut in (len(cur['polys'][pi]) // 2, 1):
                while len(cur['polys'][pi]) >= cut > 0:
                    c = copy.deepcopy(cur)
                    del c['polys'][pi][len(c['polys'][pi]) - cut:]
                    if still(c):
                        cur, changed = c, True
                    else:
                        break
        # drop extra <vertices> entries and sources nothing refers to
        for i in range(len(cur['verts']) - 1, 0, -1):
            c = copy.deepcopy(cur)
            del c['verts'][i]
            if still(c):
                cur, changed = c, True
        for si in range(len(cur['sources']) - 1, -1, -1):
            used = [r for _, _, r, _ in cur['inputs'] if r != 'v'] + [r for _, r in cur['verts']]
            if si not in used:
                c = copy.deepcopy(cur)
                del c['sources'][si]
                for x in c['inputs']:
                    if x[2] != 'v' and x[2] > si:
                        x[2] -= 1
                for x in c['verts']:
                    if x[1] > si:
                        x[1] -= 1
                if still(c):
                    cur, changed = c, True
        # smaller offsets (closes gaps)
        for i in range(len(cur['inputs'])):
            if cur['inputs'][i][0] > 0:
                c = copy.deepcopy(cur)
                c['inputs'][i][0] -= 1
                if still(c):
                    cur, changed = c, True
        # smaller entries, smaller sources
        for pi in range(len(cur['polys'])):
            for j in range(len(cur['polys'][pi])):
                if cur['polys'][pi][j] != 0:
                    c = copy.deepcopy(cur)
                    c['polys'][pi][j] = 0
                    if still(c):
                        cur, changed = c, True
        for si in range(len(cur['sources'])):
            st = max(1, src_stride(cur['route'], cur['sources'][si][1]))
            if cur['sources'][si][0] >= st:
                c = copy.deepcopy(cur)
                c['sources'][si][0] -= st
                if still(c):
                    cur, changed = c, True
    return cur


# ----------------------------------------------------------------------------- directed cases

def _case(kind, route, sources, inputs, polys, vcounts=(), verts=()):
    return dict(kind=kind, route=route, sources=[[rl, list(nm)] for rl, nm in sources], verts=[list(v) for v in verts],
                inputs=[list(i) for i in inputs], vcounts=list(vcounts), polys=[list(p) for p in polys])


XYZ, ST = ('X', 'Y', 'Z'), ('S', 'T')


def directed():
    """witnesses of the defects repaired on branch fix/c09 (both routes) and the edge cases of the
    quantifier; they run before the random cases on every run"""
    out = []
    for route in 'CL':
        v = [('POSITION', 0)] if route == 'L' else []
        ref = 'v' if route == 'L' else 0
        for kind in KINDS:
            w = WIDTH[kind]
            vc = [w] if kind == 'polylist' else []
            one = [list(range(w))] if w > 1 else [[0, 1, 2]]
            if kind == 'polylist':
                vc = [3]
            # ragged stream
            out.append(_case(kind, route, [(9, XYZ)], [(0, 'VERTEX', ref, None)], [one[0] + [0]] if kind != 'polylist' else [[0, 1, 2, 0]],
                             vc, v))
            out.append(_case(kind, route, [(9, XYZ), (6, XYZ)], [(0, 'VERTEX', ref, None), (1, 'NORMAL', 1, None)],
                             [[0, 0, 1, 1, 2][:2 * len(one[0]) - 1]], vc, v))
            # tangent / binormal beyond the source, at the last position
            for sem in ('TEXTANGENT', 'TEXBINORMAL', 'TEXCOORD', 'NORMAL'):
                src = (4, ST) if sem == 'TEXCOORD' else (6, XYZ)
                st = [e for c in one[0] for e in (c, 1)]
                st[-1] = 2
                out.append(_case(kind, route, [(9, XYZ), src], [(0, 'VERTEX', ref, None), (1, sem, 1, 0)], [st], vc, v))
            # index exactly len(source), and the largest valid one
            out.append(_case(kind, route, [(9, XYZ)], [(0, 'VERTEX', ref, None)], [[0, 1, 3][:len(one[0])][:-1] + [3]], vc, v))
            out.append(_case(kind, route, [(9, XYZ)], [(0, 'VERTEX', ref, None)], [[0, 1, 2][:len(one[0])][:-1] + [2]], vc, v))
            # values that used to wrap around on load
            for big in (2 ** 31, 2 ** 32 - 1, 2 ** 32, 2 ** 32 + 1, 2 ** 63, 2 ** 64 + 1):
                if route == 'L' or big < 2 ** 63:
                    out.append(_case(kind, route, [(9, XYZ)], [(0, 'VERTEX', ref, None)], [one[0][:-1] + [big]], vc, v))
            # empty stream, empty source
            out.append(_case(kind, route, [(0, XYZ)], [(0, 'VERTEX', ref, None)], [[]] if kind != 'polygons' else [], [], v))
            out.append(_case(kind, route, [(0, XYZ)], [(0, 'VERTEX', ref, None)], one, vc, v))
            # source data not a multiple of the stride; arity
            out.append(_case(kind, route, [(10, XYZ)], [(0, 'VERTEX', ref, None)], one, vc, v))
            out.append(_case(kind, route, [(8, ST)], [(0, 'VERTEX', ref, None)], one, vc, v))
            out.append(_case(kind, route, [(9, ('A', 'B', 'C'))], [(0, 'VERTEX', ref, None)], one, vc, v))
        # vcount totals
        for vcs, st in (([4], [0, 1, 2]), ([2], [0, 1, 2]), ([3], []), ([], [0, 1, 2]), ([3, 0], [0, 1, 2]), ([2 ** 32 + 3], [0, 1, 2])):
            out.append(_case('polylist', route, [(9, XYZ)], [(0, 'VERTEX', ref, None)], [st], vcs, v))
        # polygons whose <p> lengths are not multiples of the stride but add up to one
        out.append(_case('polygons', route, [(9, XYZ), (6, XYZ)], [(0, 'VERTEX', ref, None), (1, 'NORMAL', 1, None)],
                         [[0, 0, 1, 1, 2], [0, 1, 1]], [], v))
        out.append(_case('polygons', route, [(9, XYZ), (6, XYZ)], [(0, 'VERTEX', ref, None), (1, 'NORMAL', 1, None)],
                         [[0, 0, 1, 1, 2, 1], [0, 1, 1, 0]], [], v))
    # S,T,P data that is not a multiple of 3; NORMAL inside <vertices>
    out.append(_case('triangles', 'L', [(9, XYZ), (10, ('S', 'T', 'P'))], [(0, 'VERTEX', 'v', None), (1, 'TEXCOORD', 1, 0)],
                     [[0, 0, 1, 1, 2, 2]], [], [('POSITION', 0)]))
    out.append(_case('triangles', 'L', [(9, XYZ), (9, ('S', 'T', 'P'))], [(0, 'VERTEX', 'v', None), (1, 'TEXCOORD', 1, 0)],
                     [[0, 0, 1, 1, 2, 2]], [], [('POSITION', 0)]))
    out.append(_case('lines', 'L', [(9, XYZ), (6, XYZ)], [(0, 'VERTEX', 'v', None)], [[0, 1, 2, 0]], [], [('POSITION', 0), ('NORMAL', 1)]))
    return out


# ----------------------------------------------------------------------------- anchored-code coverage

ANCHORS = [('util.py', None, 'checkSource'), ('util.py', None, 'parseUIntArray'), ('source.py', 'FloatSource', '__init__'),
           ('source.py', 'FloatSource', 'load'), ('primitive.py', 'Primitive', '_getInputsFromList'),
           ('triangleset.py', 'TriangleSet', '__init__'), ('lineset.py', 'LineSet', '__init__'),
           ('polylist.py', 'Polylist', '__init__'), ('polygons.py', 'Polygons', '__init__')]


def anchor_coverage(cases):
    """line coverage of the anchored functions while `cases` run on the real code (measured, not assumed)"""
    import ast
    import os
    try:
        import coverage
    except ImportError:
        return {'unavailable': 'coverage module not importable'}
    from vlib import core
    base = os.path.join(os.path.realpath(core.REPO), 'collada')
    files = sorted(set(os.path.join(base, f) for f, _, _ in ANCHORS))
    cov = coverage.Coverage(data_file=None, include=files)
    cov.start()
    try:
        for c in cases:
            run_impl(c)
    finally:
        cov.stop()
    out = {}
    for fn, cls, func in ANCHORS:
        path = os.path.join(base, fn)
        try:
            tree = ast.parse(open(path).read())
            scope = tree.body
            if cls:
                scope = next(n for n in tree.body if isinstance(n, ast.ClassDef) and n.name == cls).body
            node = next(n for n in scope if isinstance(n, ast.FunctionDef) and n.name == func)
            _, statements, _, missing, _ = cov.analysis2(path)
            span = set(range(node.body[0].lineno, node.end_lineno + 1))
            st = [l for l in statements if l in span]
            miss = [l for l in missing if l in span]
            out['%s:%s' % (fn, (cls + '.' if cls else '') + func)] = '%d/%d lines%s' % (
                len(st) - len(miss), len(st), (' missing ' + ','.join(map(str, miss))) if miss else '')
        except Exception as e:   # noqa  (a renamed function is not an alarm)
            out['%s:%s' % (fn, func)] = 'not measured: %s' % type(e).__name__
    return out


# ----------------------------------------------------------------------------- check

def run(ctx):
    ctx.rule = ('random primitive specifications: kind in triangles/lines/polylist/polygons; route = Geometry.create* with an InputList or '
                'XML bytes through collada.Collada; 1-8 inputs (always one VERTEX, other semantics drawn from all eight incl. repeated '
                'VERTEX/NORMAL and several TEXCOORD/TEXTANGENT/TEXBINORMAL sets) with shared / distinct / mixed / gapped offsets; a source '
                'of 0-6 rows per input (sometimes shared; U,V and S,T,P forms and arity-only matches); VERTEX through <vertices> with '
                'optional extra semantics in it; 0-4 items; half of the cases then get 1-2 defects: an entry beyond its source by '
                '0,1,..,2^31,2^32,2^40 at a random position of a checked or any column, ragged stream, vcount total off / <p> lengths '
                'shifted, source data length off, wrong arity, shuffled stream. Non-trivial = non-empty stream; distinct = distinct '
                'specification')
    ncases = ctx.n(25000, 300000)
    cases = [(c, 'directed') for c in directed()]
    for _ in range(ncases):
        c, mode = gen_case(ctx.rng)
        cases.append((c, mode))
    lines = [line_of(c) for c, _ in cases]
    ctx.notes['anchor_coverage'] = anchor_coverage([c for c, _ in cases[:2500]])
    model = ctx.driver('C09', lines) if ctx.lean_ok else None
    reported = set()
    corr = []     # correspondence-only deviations are listed after the failing inputs
    for idx, (c, mode) in enumerate(cases):
        ans, prim = run_impl(c)
        stream_len = sum(len(p) for p in c['polys'])
        ctx.case(dict(line=lines[idx]), nontrivial=stream_len > 0)
        ctx.count('kind:' + c['kind'])
        ctx.count('route:' + ('create' if c['route'] == 'C' else 'xml'))
        ctx.count('inputs:%d' % len(c['inputs']))
        ctx.count('offsets:' + mode)
        ctx.count('verdict:' + ans.split(' ')[0])
        ctx.count('stream:' + ('0' if stream_len == 0 else '1-12' if stream_len <= 12 else '13-48' if stream_len <= 48 else '49+'))
        reasons, _, _ = truth(c)
        for r in reasons or ['defect-free']:
            ctx.count('truth:' + r)
        if any(rl == 0 for rl, _ in c['sources']):
            ctx.count('has-empty-source')
        bad = oracle(c, ans, prim)
        if bad:
            sig = signature(c, bad)
            if sig not in reported:
                reported.add(sig)
                small = shrink(c, sig)
                a2, p2 = run_impl(small)
                b2 = oracle(small, a2, p2) or bad
                ctx.violation(sig, b2[2] + ' — ' + line_of(small), dict(kind='oracle', case=small, line=line_of(small), impl=a2))
        elif model is not None and model[idx] != ans:
            sig = 'corr:%s:%s' % (c['route'], c['kind'])
            if sig not in reported:
                reported.add(sig)
                corr.append((sig, 'correspondence Pyc.Validate.construct <-> pycollada broke on %r: model %r, implementation %r; the '
                             'array oracle found no failing input on this case (theorems of Pyc/Props/C09.lean no longer describe the '
                             'code)' % (lines[idx], model[idx], ans),
                             dict(kind='correspondence', case=c, line=lines[idx], model=model[idx], impl=ans)))
    for sig, what, rep in corr:
        ctx.violation(sig, what, rep, found_input=False)
    ctx.assumptions.append('numpy reshape / max / fancy indexing, the int64 text parser and xml.etree are modelled, not verified; '
                           'float source data are the integers 0..n-1')


def replay(ctx, rep):
    case = rep['case']
    ans, prim = run_impl(case)
    bad = oracle(case, ans, prim)
    print('  implementation: %s' % ans[:300])
    if bad:
        print('  ' + bad[2])
        return True
    if rep.get('kind') == 'correspondence':
        print('  (correspondence record: the model answered %r)' % rep.get('model'))
    return False
