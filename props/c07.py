"""C07 — references resolve to the right object, on load and on save.

Proof: Pyc/Props/C07.lean (retry loop: retry_sound, retry_stuck, loaded_iff_loadable, retry_perm, self/mutual reference; lookup:
same_object, resolved_is_the_carrier, dangling_is_error, written_refs_resolve; made-up samplers for textures naming an image:
direct_one_sampler_per_image, direct_sampler_is_the_param, direct_every_property_mapped, direct_params_exactly_named, negative direct_throwaway_breaks; deps_precede over the load-order table that
translators/load_order.py regenerates from the AST on every run).
Correspondence: random instance_node graphs (forward, repeated, chained, cyclic, self, dangling) in <library_nodes> and among the
roots of a <visual_scene>: which nodes the real loader loads, in which order, how many broken-reference errors vs Pyc.Refs.loadNodes;
effects whose textures name images directly: parameter list and sampler positions vs Pyc.DirectTex.run.
Direct oracle: identity of every resolved reference with the library object carrying the id; permutation of top-level libraries and of
node definition order; each kind of dangling reference strictly raises DaeBrokenRefError and is never bound when ignored; after
renaming every referenced object the written references resolve (independent reader).
"""
import io
import itertools
import random
import re
import xml.etree.ElementTree as ET

from vlib import core, snap, docgen, modelgen, editgen, xmlread

PID = 'C07'
TRANSLATORS = ['load_order']
LEAN_MODULES = ['Pyc.Model.Refs', 'Pyc.Model.DirectTex']
META = dict(
    level_text=('Proof: Pyc/Props/C07.lean proves for the instance_node retry loop, for every list of node definitions and every reference graph, that each loaded '
                'node had all its targets loaded before it, that the loop ends with exactly the ids that are loadable at all (a finite reference chain: '
                'loaded_iff_loadable), hence independently of definition order (retry_perm), and that self- and mutually referential nodes are never loaded but '
                'reported; that id lookup returns the carrier of the id or a broken-reference error, never another object; that references written from current ids '
                'resolve to the same object; that the loader\'s repair for textures naming an image makes up one sampler per image whatever properties name it in '
                'whatever order, that this sampler is the effect parameter carrying the id and that no id is carried by two parameters (invariant over scope, '
                'parameter list and maps); and, on the AST-derived table of this run, that every cross-library look-up targets a library loaded earlier (deps_precede).'),
    level_note=('Trusted: Lean kernel + standard axioms; Pyc/Model/Refs.lean; Pyc/Model/DirectTex.lean (made-up ids kept apart by constructor); translators/load_order.py (which loader modules serve which library); the generators. '
                'Unique ids are a hypothesis of written_refs_resolve and of the cycle theorems.'),
    technique='Lean 4 invariant proof of the retry loop (closure + fixpoint) with an order-independent characterisation + AST-derived load-order table + invariant proof of the made-up-sampler repair + correspondence on random reference graphs and image-named textures + identity/permutation/dangling oracles',
)
NS = docgen.NS141


# ----------------------------------------------------------------------------- reference graphs

def graph_case(rng):
    """node definitions [(id, [targets])] in document order"""
    n = rng.randint(1, 6)
    ids = ['N%d' % i for i in range(n)]
    defs = []
    for i in ids:
        k = rng.random()
        refs = []
        for _ in range(rng.choice([0, 0, 1, 1, 2, 3])):
            r = rng.random()
            if r < 0.75:
                refs.append(rng.choice(ids))
            elif r < 0.9:
                refs.append('missing%d' % rng.randint(0, 1))
            else:
                refs.append(i)
        defs.append((i, refs))
    rng.shuffle(defs)
    return defs


def node_xml(nid, refs, nest):
    inner = ''.join('<instance_node url="#%s"/>' % r for r in refs)
    if nest and refs:
        inner = '<node id="%s_in">%s</node>' % (nid, inner)
    return '<node id="%s">%s</node>' % (nid, inner)


def graph_doc(defs, where, nest):
    nodes = ''.join(node_xml(i, r, nest) for i, r in defs)
    if where == 'library':
        # the nodes may be spread over several <library_nodes> elements (where the cut falls depends on the definitions only)
        cut = sum(len(i) + len(r) for i, r in defs) % (len(defs) + 1) if len(defs) > 1 and sum(len(r) for i, r in defs) % 3 == 0 else None
        if cut is not None and 0 < cut < len(defs):
            nodes = ''.join(node_xml(i, r, nest) for i, r in defs[:cut]) + '</library_nodes><library_cameras/><library_nodes>' + \
                ''.join(node_xml(i, r, nest) for i, r in defs[cut:])
        body = '<library_nodes>%s</library_nodes><library_visual_scenes><visual_scene id="vs"/></library_visual_scenes>' % nodes
    else:
        body = '<library_visual_scenes><visual_scene id="vs">%s</visual_scene></library_visual_scenes>' % nodes
    return ('<COLLADA xmlns="%s" version="1.4.1"><asset><up_axis>Y_UP</up_axis></asset>%s</COLLADA>' % (NS, body)).encode()


def graph_impl(defs, where, nest):
    import collada
    from collada.common import DaeError
    d = collada.Collada(io.BytesIO(graph_doc(defs, where, nest)), ignore=[DaeError])
    errs = [type(e).__name__ for e in d.errors]
    if where == 'library':
        return 'library=%s broken=%d' % (','.join(n.id for n in d.nodes), errs.count('DaeBrokenRefError')), d
    if d.scenes:
        return 'library=%s broken=0' % ','.join(n.id for n in d.scenes[0].nodes), d
    return 'scene-failed:%s' % ','.join(errs), d


def graph_oracle(defs, where, d):
    """targets of every NodeNode are the identical objects carrying the id"""
    from collada import scene
    roots = list(d.nodes) if where == 'library' else (list(d.scenes[0].nodes) if d.scenes else [])
    byid = {}
    for n in roots:
        byid[n.id] = n

    def walk(n):
        for c in getattr(n, 'children', []):
            if isinstance(c, scene.NodeNode):
                url = c.xmlnode.get('url')[1:]
                if c.node is not byid.get(url):
                    return 'instance_node %s resolved to %r which is not the node carrying that id' % (url, getattr(c.node, 'id', None))
            elif isinstance(c, scene.Node):
                r = walk(c)
                if r:
                    return r
        return None
    for n in roots:
        r = walk(n)
        if r:
            return r
    return None


# ----------------------------------------------------------------------------- identity of references in whole documents

def identity_check(d):
    """every reference in the model is the library object that carries the id named in the file"""
    from collada import scene, material
    problems = []

    def lib_get(lib, oid):
        for o in lib:
            if o.id == oid:
                return o
        return None
    scenelocal = {}
    for s in d.scenes:
        for n in s.nodes:
            scenelocal.setdefault(id(s), {})[n.id] = n

    def walk(n, local):
        for c in getattr(n, 'children', []):
            url = c.xmlnode.get('url') if hasattr(c, 'xmlnode') and c.xmlnode is not None else None
            if isinstance(c, scene.NodeNode):
                want = local.get(url[1:]) or lib_get(d.nodes, url[1:])
                if c.node is not want:
                    problems.append('instance_node %s' % url)
            elif isinstance(c, scene.GeometryNode):
                if c.geometry is not lib_get(d.geometries, url[1:]):
                    problems.append('instance_geometry %s' % url)
                for m in c.materials:
                    if m.target is not lib_get(d.materials, m.xmlnode.get('target')[1:]):
                        problems.append('instance_material %s' % m.xmlnode.get('target'))
            elif isinstance(c, scene.LightNode):
                if c.light is not lib_get(d.lights, url[1:]):
                    problems.append('instance_light %s' % url)
            elif isinstance(c, scene.CameraNode):
                if c.camera is not lib_get(d.cameras, url[1:]):
                    problems.append('instance_camera %s' % url)
            elif isinstance(c, scene.Node):
                walk(c, local)
    for n in d.nodes:
        walk(n, {})
    for s in d.scenes:
        for n in s.nodes:
            walk(n, scenelocal.get(id(s), {}))
    for m in d.materials:
        eff = m.xmlnode.find(d.tag('instance_effect')).get('url')[1:]
        if m.effect is not lib_get(d.effects, eff):
            problems.append('instance_effect #%s' % eff)
    for e in d.effects:
        for p in e.params:
            if isinstance(p, material.Surface) and p.image is not lib_get(d.images, p.image.id):
                problems.append('surface image %s' % p.image.id)
            if isinstance(p, material.Sampler2D) and not any(q is p.surface for q in e.params):
                problems.append('sampler surface %s' % p.surface.id)
        # an id names ONE parameter of the effect, and every map that names it holds that object
        pids = [p.id for p in e.params if isinstance(getattr(p, 'id', None), str)]
        if len(pids) != len(set(pids)):
            problems.append('effect %s holds several parameters with one id: %s' % (e.id, sorted(x for x in set(pids) if pids.count(x) > 1)))
        for prop in list(e.supported) + ['bumpmap']:
            v = getattr(e, prop, None)
            if isinstance(v, material.Map) and not any(q is v.sampler for q in e.params):
                problems.append('%s of effect %s: its sampler %s is not the parameter of that id' % (prop, e.id, v.sampler.id))
    if d.scene is not None:
        ivs = d.xmlnode.find('%s/%s' % (d.tag('scene'), d.tag('instance_visual_scene')))
        if d.scene is not lib_get(d.scenes, ivs.get('url')[1:]):
            problems.append('default scene')
    # lookups by id agree with the library lists
    for name in ('geometries', 'lights', 'cameras', 'images', 'effects', 'materials', 'nodes', 'scenes'):
        lib = getattr(d, name)
        ids = [o.id for o in lib]
        for o in lib:
            if ids.count(o.id) == 1 and lib.get(o.id) is not o:
                problems.append('%s.get(%r) is not the object carrying it' % (name, o.id))
    return problems


def permute_doc(data, rng):
    """same document with top-level libraries, library nodes and scene roots permuted"""
    root = ET.fromstring(data)
    ns = root.tag.split('}')[0] + '}'
    kids = list(root)
    head = [k for k in kids if k.tag == ns + 'asset']
    tail = [k for k in kids if k.tag in (ns + 'scene', ns + 'extra')]
    libs = [k for k in kids if k not in head and k not in tail]
    rng.shuffle(libs)
    root[:] = head + libs + tail
    for lib in root.findall(ns + 'library_nodes'):
        c = list(lib)
        rng.shuffle(c)
        lib[:] = c
    return ET.tostring(root)


def by_id(snapshot):
    """libraries as id-keyed dicts: what must not depend on definition order"""
    out = {}
    for k, v in snapshot.items():
        if isinstance(v, list) and v and isinstance(v[0], dict) and 'id' in v[0]:
            out[k] = dict((x['id'], x) for x in v)
        else:
            out[k] = v
    return out


DANGLE = [
    ('instance_geometry', rb'(<instance_geometry[^>]*url="#)[^"]*"', 'DaeBrokenRefError'),
    ('instance_light', rb'(<instance_light[^>]*url="#)[^"]*"', 'DaeBrokenRefError'),
    ('instance_camera', rb'(<instance_camera[^>]*url="#)[^"]*"', 'DaeBrokenRefError'),
    ('instance_node', rb'(<instance_node[^>]*url="#)[^"]*"', 'DaeBrokenRefError'),
    ('instance_material', rb'(<instance_material[^>]*target="#)[^"]*"', 'DaeBrokenRefError'),
    ('instance_effect', rb'(<instance_effect[^>]*url="#)[^"]*"', 'DaeBrokenRefError'),
    ('default_scene', rb'(<instance_visual_scene[^>]*url="#)[^"]*"', 'DaeBrokenRefError'),
    ('surface_image', rb'(<init_from>)img\d+(</init_from>)', 'DaeBrokenRefError'),
    ('sampler_surface', rb'(<source>)surf\d+(</source>)', 'DaeBrokenRefError'),
    # <texture texture="..."> names a sampler of the effect (shading parameters and bump maps alike)
    ('texture_sampler', rb'(<texture[^>]*texture=")[^"]*"', 'DaeBrokenRefError'),
    # a reference into ANOTHER document whose fragment happens to be a local id: not a reference to the local object
    ('external_geometry', rb'(<instance_geometry[^>]*url=")#', 'DaeMalformedError|DaeBrokenRefError'),
    ('external_material', rb'(<instance_material[^>]*target=")#', 'DaeMalformedError|DaeBrokenRefError'),
    ('external_effect', rb'(<instance_effect[^>]*url=")#', 'DaeMalformedError|DaeBrokenRefError'),
    ('external_node', rb'(<instance_node[^>]*url=")#', 'DaeMalformedError|DaeBrokenRefError'),
    ('external_light', rb'(<instance_light[^>]*url=")#', 'DaeMalformedError|DaeBrokenRefError'),
    # the name exists in the effect's scope but is not a surface (an earlier sampler or float parameter): still dangling
    ('sampler_surface_wrong_kind', None, 'DaeBrokenRefError'),
]


def _wrong_kind(data):
    import xml.etree.ElementTree as ET
    root = ET.fromstring(data)
    ns = root.tag.split('}')[0] + '}'
    for eff in root.iter(ns + 'effect'):
        earlier = []
        for np_ in eff.iter(ns + 'newparam'):
            samp = np_.find(ns + 'sampler2D')
            if samp is not None and samp.find(ns + 'source') is not None and earlier:
                samp.find(ns + 'source').text = earlier[-1]
                ET.register_namespace('', ns[1:-1])
                return ET.tostring(root)
            if np_.find(ns + 'surface') is None:
                earlier.append(np_.get('sid'))
    return None


def dangle(data, kind, pattern):
    if kind == 'sampler_surface_wrong_kind':
        return _wrong_kind(data)
    if kind.startswith('external_'):
        new, n = re.subn(pattern, rb'\1props.dae#', data, count=1)
        return new if n else None
    if kind in ('surface_image', 'sampler_surface'):
        new, n = re.subn(pattern, rb'\1nowhere_to_be_found\2', data, count=1)
    else:
        new, n = re.subn(pattern, rb'\1nowhere_to_be_found"', data, count=1)
    return new if n else None


def check_dangling(data, kind, pattern, expect):
    import collada
    from collada.common import DaeError
    bad = dangle(data, kind, pattern)
    if bad is None:
        return 'skip'
    try:
        collada.Collada(io.BytesIO(bad))
        return ('dangling-accepted:' + kind, 'a dangling %s reference loads without error' % kind)
    except Exception as e:
        from props import c08
        if c08.kname(e) not in expect.split('|'):
            return ('dangling-wrong-error:' + kind, 'a dangling %s reference raises %s instead of %s' % (kind, type(e).__name__, expect))
    try:
        d = collada.Collada(io.BytesIO(bad), ignore=[DaeError])
    except Exception as e:
        return ('dangling-not-ignorable:' + kind, 'a dangling %s reference cannot be ignored: %s' % (kind, type(e).__name__))
    from props import c08
    if not set(expect.split('|')) & set(c08.kname(e) for e in d.errors):
        return ('dangling-not-recorded:' + kind, 'a dangling %s reference was not recorded as %s' % (kind, expect))
    pr = identity_check(d)
    if pr:
        return ('dangling-bound:' + kind, 'with a dangling %s reference ignored the model binds a reference wrongly: %s' % (kind, pr[:3]))
    return None


def check_skin_sources(seed):
    """skin and morph references: the sources a loaded controller exposes are the ones its inputs name, and its geometry is the library object
    carrying the id (documents of the C19 generator, whose <joints> and <vertex_weights> may name different JOINT sources). None, 'skip' or (sig, text)"""
    import collada
    from props import c19
    r = random.Random('c07skin/%s' % seed)
    for _ in range(40):
        c, exp = c19.gen_case(r)
        if exp == 'ok':
            break
    else:
        return 'skip'
    try:
        d = collada.Collada(io.BytesIO(c19.doc_xml(c)))
    except Exception as e:
        # the generator says this document is sound (its references all have targets): a reference error is the loader's
        if type(e).__name__ == 'DaeBrokenRefError':
            return ('skin-source:not-resolved', 'a controller document whose references all have targets does not load: %s (%s, %d influences)'
                    % (e, c['kind'], len(c.get('vcounts') or c.get('targets') or [])))
        return 'skip'
    if not d.controllers:
        return 'skip'
    if c['tree'] is not None and d.scene is not None:
        try:
            n = len(list(d.scene.objects('controller')))
        except Exception as e:
            return ('skin-source:traversal', 'traversing the controller instances raised %s' % type(e).__name__)
        if n != len(c19.tree_paths(c['tree'])):
            return ('skin-source:instances', 'the scene instantiates the controller %d times but %d bound controllers are yielded' % (len(c19.tree_paths(c['tree'])), n))
    ctl = d.controllers[0]
    if c['kind'] == 'skin':
        want_wj = 'ctl-wjoints' if c['wj'] is not None else 'ctl-joints'
        if getattr(ctl.weight_joints, 'id', None) != want_wj:
            return ('skin-source:weight-joints', 'the JOINT input of <vertex_weights> names #%s but the skin exposes source %r as weight_joints'
                    % (want_wj, getattr(ctl.weight_joints, 'id', None)))
        if getattr(ctl.weights, 'id', None) != 'ctl-weights':
            return ('skin-source:weights', 'the WEIGHT input names #ctl-weights but the skin exposes source %r' % getattr(ctl.weights, 'id', None))
        names = [str(x) for x in c['names']]
        if sorted(str(k) for k in ctl.joint_matrices) != sorted(set(names)) and len(set(names)) == len(names):
            return ('skin-source:joints', 'the JOINT input of <joints> lists %s but the skin has matrices for %s' % (names, sorted(str(k) for k in ctl.joint_matrices)))
        g = ctl.geometry
    else:
        g = ctl.source_geometry
    if not any(g is x for x in d.geometries) or g.id != c['src']:
        return ('skin-source:geometry', 'the controller names geometry #%s but is bound to %r which is not that library object' % (c['src'], getattr(g, 'id', None)))
    return None


def check_rename_save(seed):
    """rename every referenced object, write, and read the file independently: every reference resolves to the renamed id"""
    gen = modelgen.Gen(seed)
    doc = gen.build()
    r = random.Random('c07r/%s' % seed)
    # the renames come after nothing, after a first save() (every element is attached by then), or in the document loaded from the written file
    stage = seed % 3
    try:
        if stage == 1:
            doc.save()
        elif stage == 2:
            import collada
            b0 = io.BytesIO()
            doc.write(b0)
            doc = collada.Collada(io.BytesIO(b0.getvalue()))
    except Exception as e:
        core.note_skip('c07:rename-stage', e)
        return None
    n = 0
    for name in ('geometries', 'lights', 'cameras', 'images', 'effects', 'materials', 'nodes', 'scenes'):
        for o in getattr(doc, name):
            if r.random() < 0.7:
                n += 1
                o.id = 'rn%d_%s' % (n, name)
    # effect-local ids: surfaces and samplers are referred to by sid from samplers and <texture>
    for e in doc.effects:
        for prm in e.params:
            if hasattr(prm, 'id') and isinstance(prm.id, str) and r.random() < 0.7:
                n += 1
                prm.id = 'rn%d_param' % n
    b = io.BytesIO()
    try:
        doc.write(b)
    except Exception as e:
        return ('rename-write:' + type(e).__name__, 'write after renaming raised %s: %s' % (type(e).__name__, str(e)[:120]))
    got = xmlread.read(b.getvalue())
    bad = []
    local_ids = set(n.get('id') for sc in got['scenes'] for n in sc['nodes'])

    def walk(x, path):
        if isinstance(x, dict):
            for k, v in x.items():
                if k in ('geometry', 'light', 'camera', 'node', 'target', 'effect', 'controller') and isinstance(v, list) and len(v) == 2 and isinstance(v[1], bool):
                    if not v[1] and not (k == 'node' and v[0] in local_ids):
                        bad.append('%s.%s -> %s' % (path, k, v[0]))
                else:
                    walk(v, path + '.' + str(k))
        elif isinstance(x, list):
            for i, v in enumerate(x):
                walk(v, '%s[%d]' % (path, i))
    walk(got, '')
    if got.get('scene') and not got['scene'][1]:
        bad.append('default scene -> %s' % got['scene'][0])
    for e in got['effects']:
        for p in e['params']:
            if p[0] == 'surface' and not p[2][1]:
                bad.append('surface image -> %s' % p[2][0])
            if p[0] == 'sampler2D' and not p[3]:
                bad.append('sampler surface -> %s' % p[2])
        for k, v in e.items():
            if isinstance(v, list) and v and v[0] == 'map' and not v[2]:
                bad.append('effect %s: <texture> of %s -> %s' % (e['id'], k, v[1]))
    if bad:
        return ('written-ref-dangling', 'after renaming, written references do not resolve inside the written document: %s' % bad[:4])
    return None


# ----------------------------------------------------------------------------- textures that name an image directly

DIRECT_PROPS = {'phong': ['emission', 'ambient', 'diffuse', 'specular', 'reflective', 'transparent'],
                'blinn': ['emission', 'ambient', 'diffuse', 'specular', 'reflective', 'transparent'],
                'lambert': ['emission', 'ambient', 'diffuse', 'reflective', 'transparent'],
                'constant': ['emission', 'reflective', 'transparent']}


def direct_case(rng):
    """effects WITHOUT sampler/surface parameters whose <texture> elements name an image id (an exporter habit the loader repairs by
    making up the surface and the sampler); the same image is named by several properties and by several effects"""
    images = ['im%d' % i for i in range(rng.randint(1, 3))]
    if rng.random() < 0.35:
        # an image whose own id looks like the id the loader makes up for another image's surface
        images.append(rng.choice(images) + '-surface')
    effects = []
    for e in range(rng.randint(1, 3)):
        shader = rng.choice(sorted(DIRECT_PROPS))
        props = []
        for key in DIRECT_PROPS[shader]:
            k = rng.random()
            if k < 0.55:
                props.append((key, 'tex', rng.choice(images)))
            elif k < 0.8:
                props.append((key, 'color', None))
        # some images get a proper surface + sampler pair (sids sf_<image> / sm_<image>); their textures name the sampler or, as exporters do, the image
        declared = sorted(im for im in images if rng.random() < 0.3) if rng.random() < 0.4 else []
        props = [(key, kind, ('sm_' + im) if kind == 'tex' and im in declared and rng.random() < 0.5 else im) for key, kind, im in props]
        # (no bump map: a bump <texture> must name a sampler, anything else is a broken reference)
        effects.append(('fx%d' % e, shader, props, declared or None))
    return images, effects


def direct_doc(images, effects):
    out = ['<?xml version="1.0" encoding="utf-8"?>\n<COLLADA xmlns="%s" version="1.4.1"><asset><created>2020-01-01T00:00:00</created>'
           '<modified>2020-01-01T00:00:00</modified></asset><library_images>' % NS]
    for im in images:
        out.append('<image id="%s"><init_from>%s.png</init_from></image>' % (im, im))
    out.append('</library_images><library_effects>')
    for eid, shader, props, declared in effects:
        bump = None
        out.append('<effect id="%s"><profile_COMMON>' % eid)
        for im in declared or []:
            out.append('<newparam sid="sf_%s"><surface type="2D"><init_from>%s</init_from></surface></newparam>'
                       '<newparam sid="sm_%s"><sampler2D><source>sf_%s</source></sampler2D></newparam>' % (im, im, im, im))
        out.append('<technique sid="common"><%s>' % shader)
        for key, kind, im in props:
            out.append('<%s>%s</%s>' % (key, '<texture texture="%s" texcoord="UV0"/>' % im if kind == 'tex' else '<color>0.5 0.25 0.125 1</color>', key))
        out.append('</%s>' % shader)
        if bump:
            out.append('<extra><technique profile="FCOLLADA"><bump><texture texture="%s" texcoord="UV0"/></bump></technique></extra>' % bump)
        out.append('</technique></profile_COMMON></effect>')
    out.append('</library_effects></COLLADA>')
    return ''.join(out).encode('utf-8')


def check_direct(images, effects):
    """one id names one parameter of an effect; every map naming an image holds THE sampler made up for it, whose surface holds THE image;
    the same after write + reload"""
    import collada
    from collada import material
    data = direct_doc(images, effects)
    try:
        d = collada.Collada(io.BytesIO(data))
    except collada.DaeError as e:
        return ('direct-load:' + type(e).__name__, 'effect whose textures name images directly does not load: %s' % str(e)[:150])

    def look(d, when):
        pr = identity_check(d)
        if pr:
            return ('direct-identity', '%s: %s (effects %s)' % (when, pr[:3], effects))
        for eid, shader, props, declared in effects:
            bump = None
            e = d.effects.get(eid)
            if e is None:
                return ('direct-effect-missing', '%s: effect %s is not in the library' % (when, eid))
            seen = {}
            for key, kind, im in props + ([('bumpmap', 'tex', bump)] if bump else []):
                v = getattr(e, key, None)
                if kind != 'tex':
                    continue
                if not isinstance(v, material.Map):
                    if key == 'bumpmap':
                        continue           # bump maps only through a sampler already present (documented loader behaviour is looked at in C05)
                    return ('direct-not-a-map', '%s: %s of %s names image %s but is %r' % (when, key, eid, im, type(v).__name__))
                name, im = im, (im[3:] if im.startswith('sm_') else im)
                if v.sampler.surface.image is not d.images.get(im):
                    return ('direct-wrong-image', '%s: %s of %s names image %s but holds image %r' % (when, key, eid, im, getattr(v.sampler.surface.image, 'id', None)))
                if name in seen and seen[name] is not v.sampler:
                    return ('direct-two-samplers', '%s: two properties of %s name %s but hold different sampler objects' % (when, eid, name))
                seen[name] = v.sampler
                if name.startswith('sm_') and v.sampler.id != name:
                    return ('direct-wrong-sampler', '%s: %s of %s names sampler %s but holds sampler %r' % (when, key, eid, name, v.sampler.id))
        return None
    res = look(d, 'after load')
    if res:
        return res
    out = io.BytesIO()
    try:
        d.write(out)
        d2 = collada.Collada(io.BytesIO(out.getvalue()))
    except Exception as e:
        return ('direct-rewrite:' + type(e).__name__, 'write + reload of an effect whose textures name images directly raised: %s' % str(e)[:150])
    return look(d2, 'after write and reload')


def shrink_direct(images, effects, sig):
    """greedy: drop effects, then properties, then images, as long as the same kind of failure stays"""
    def fails(im, ef):
        try:
            r = check_direct(im, ef)
        except Exception:
            return False
        return r is not None and r[0] == sig
    changed = True
    while changed:
        changed = False
        for i in range(len(effects)):
            cand = effects[:i] + effects[i + 1:]
            if cand and fails(images, cand):
                effects, changed = cand, True
                break
        if changed:
            continue
        for i, (eid, shader, props, bump) in enumerate(effects):
            for j in range(len(props)):
                cand = effects[:i] + [(eid, shader, props[:j] + props[j + 1:], bump)] + effects[i + 1:]
                if fails(images, cand):
                    effects, changed = cand, True
                    break
            if changed:
                break
        if changed:
            continue
        used = set(im for _, _, props, _ in effects for _, k, im in props if k == 'tex')
        cand = [im for im in images if im in used]
        if cand != images and cand and fails(cand, effects):
            images, changed = cand, True
    return images, effects


def direct_observe(images, effects):
    """what the real loader built, in the words of drv/C07.lean `direct`: the effect's parameters (sorted: their order is not the property's business)
    and, per property naming an image, the first property whose map holds the same sampler object"""
    import collada
    from collada import material
    d = collada.Collada(io.BytesIO(direct_doc(images, effects)))
    out = []
    for eid, shader, props, bump in effects:
        e = d.effects[eid]
        # a made-up surface is named by the image it holds (its own id is the loader's choice: unique in the effect, checked by the oracle)
        ps = ','.join(sorted('surf:%s-surface' % q.image.id if isinstance(q, material.Surface) else ('samp:' if isinstance(q, material.Sampler2D) else 'other:') + str(q.id)
                             for q in e.params))
        ms, held = [], []
        for key, kind, im in props:
            if kind == 'tex':
                v = getattr(e, key)
                smp = v.sampler if isinstance(v, material.Map) else None
                first = [k for k, q in held if q is smp and smp is not None]
                ms.append('%s:%s' % (key, first[0] if first else (key if smp is not None else 'none')))
                held.append((key, smp))
        out.append('params=%s maps=%s' % (ps, ','.join(ms)))
    return out


def run(ctx):
    ctx.rule = ('instance_node graphs over 1-6 nodes (targets: any node incl. itself, missing ids; nested or direct; in <library_nodes> or as visual_scene roots; '
                'definition order shuffled); docgen documents with permuted libraries / node definitions; nine kinds of dangling reference; renames of every referenced '
                'library object before write; effects without sampler parameters whose textures name 1-4 images directly (ids that look like made-up surface ids among them; some images with a declared surface + sampler pair named by sid or by image id; shared between properties and effects, load and write+reload); non-trivial = graph with at least one reference / document with at least one reference; distinct by content')
    reported = set()

    def report(res, rep):
        if res and res != 'skip' and res[0] not in reported:
            reported.add(res[0])
            ctx.violation('c07:' + res[0], res[1], rep)
    # graphs
    lines, actual, cases = [], [], []
    for i in range(ctx.n(500, 20000)):
        defs = graph_case(ctx.rng)
        where = 'library' if i % 2 == 0 else 'scene'
        nest = ctx.rng.random() < 0.4
        try:
            a, d = graph_impl(defs, where, nest)
        except Exception as e:
            report(('graph-raised:' + type(e).__name__, 'loading an instance_node graph raised %s although every DaeError is ignored: %s' % (type(e).__name__, defs)),
                   dict(kind='graph', defs=defs, where=where, nest=nest))
            continue
        ctx.case(dict(kind='graph', where=where, defs=defs), nontrivial=any(r for _, r in defs))
        ctx.count('graph:' + where)
        pr = graph_oracle(defs, where, d)
        if pr:
            report(('graph-identity', pr + ' in %s' % defs), dict(kind='graph', defs=defs, where=where, nest=nest))
        lines.append('nodes ' + ' '.join('%s:%s' % (i_, ','.join(r)) for i_, r in defs))
        actual.append(a)
        cases.append((defs, where, nest))
    if ctx.lean_ok and lines:
        for l, a, m, c in zip(lines, actual, ctx.driver('C07', lines), cases):
            lib = m.split(' library=')[1].split(' ')[0]
            broken = [x for x in m.split(' broken=')[1].split(',') if x]
            if c[1] == 'library':
                want = 'library=%s broken=%d' % (lib, len(broken))
            else:
                want = ('library=%s broken=0' % lib) if not broken else None     # a stuck root fails the whole scene
            ok = (a == want) if want is not None else a.startswith('scene-failed:')
            loaded_impl = set(x for x in a.split('library=')[1].split(' ')[0].split(',') if x) if 'library=' in a else set()
            loaded_model = set(x for x in lib.split(',') if x)
            if not ok and (loaded_model - loaded_impl) and 'graph-resolvable-not-loaded' not in reported:
                # every reference of these nodes can be resolved (finite chain), yet the loader did not load them
                reported.add('graph-resolvable-not-loaded')
                ctx.violation('c07:graph-resolvable-not-loaded', 'nodes %s only refer to nodes that exist (no cycle), but the loader reports %r for %s (%s): resolution '
                              'depends on the definition order' % (sorted(loaded_model - loaded_impl), a, c[0], c[1]), dict(kind='graph', defs=c[0], where=c[1], nest=c[2]))
            elif not ok and 'corr:retry' not in reported:
                reported.add('corr:retry')
                # is it a property failure? cyclic graphs must terminate with an error, resolvable ones must load
                ctx.violation('corr:retry', 'retry loop: loader gives %r, Pyc.Refs.loadNodes gives %r for %s (%s)' % (a, m, c[0], c[1]),
                              dict(kind='graph', defs=c[0], where=c[1], nest=c[2]), found_input=False)
    # whole documents
    for i in range(ctx.n(120, 4000)):
        import collada
        seed = ctx.rng.randrange(10 ** 9)
        data = docgen.generate(seed)
        try:
            d = collada.Collada(io.BytesIO(data))
        except Exception as e:
            report(('doc-load:' + type(e).__name__, 'generated document does not load: %s' % str(e)[:150]), dict(kind='doc', seed=seed))
            continue
        ctx.case(dict(kind='doc', seed=seed))
        ctx.count('doc')
        pr = identity_check(d)
        if pr:
            report(('identity', 'references not bound to the object carrying the id: %s' % pr[:4]), dict(kind='doc', seed=seed))
        pdata = permute_doc(data, random.Random(seed))
        try:
            dp = collada.Collada(io.BytesIO(pdata))
            df = snap.diff(by_id(snap.snapshot(d)), by_id(snap.snapshot(dp)))
            if df:
                report(('permutation', 'permuting libraries / library nodes changes the loaded model: %s' % df[:3]), dict(kind='perm', seed=seed))
            pr = identity_check(dp)
            if pr:
                report(('identity-permuted', 'after permutation references are bound wrongly: %s' % pr[:4]), dict(kind='perm', seed=seed))
        except Exception as e:
            report(('permutation-load:' + type(e).__name__, 'the permuted document does not load: %s' % str(e)[:150]), dict(kind='perm', seed=seed))
        kind, pat, exp = DANGLE[i % len(DANGLE)]
        res = check_dangling(data, kind, pat, exp)
        ctx.count('dangling:%s:%s' % (kind, 'skip' if res == 'skip' else 'run'))
        report(res, dict(kind='dangling', seed=seed, which=kind))
    # kinds that need a particular shape of document: look for documents that have it
    for i in range(ctx.n(25, 600)):
        for _try in range(30):
            seed = ctx.rng.randrange(10 ** 9)
            data = docgen.generate(seed)
            if _wrong_kind(data) is not None:
                break
        else:
            continue
        res = check_dangling(data, 'sampler_surface_wrong_kind', None, 'DaeBrokenRefError')
        ctx.case(dict(kind='dangling', seed=seed, which='sampler_surface_wrong_kind'))
        ctx.count('dangling:sampler_surface_wrong_kind:run')
        report(res, dict(kind='dangling', seed=seed, which='sampler_surface_wrong_kind'))
    for i in range(ctx.n(120, 3000)):
        seed = ctx.rng.randrange(10 ** 9)
        try:
            res = check_skin_sources(seed)
        except Exception as e:
            res = ('skin-source:check-raised', 'checking controller references raised %s: %s' % (type(e).__name__, e))
        if res == 'skip':
            continue
        ctx.case(dict(kind='skin', seed=seed))
        ctx.count('controller-references')
        report(res, dict(kind='skin', seed=seed))
    dlines, dactual = [], []
    for i in range(ctx.n(150, 5000)):
        images, effects = direct_case(ctx.rng)
        ctx.count('direct-texture:declared-samplers' if any(d_ for _, _, _, d_ in effects) else 'direct-texture:no-parameters')
        shared = any(len([1 for _, k, im in props if k == 'tex']) > len(set(im for _, k, im in props if k == 'tex')) for _, _, props, _ in effects)
        ctx.case(dict(kind='direct', images=images, effects=effects), nontrivial=shared)
        ctx.count('direct-texture:' + ('shared-image' if shared else 'plain'))
        try:
            res = check_direct(images, effects)
        except Exception as e:
            res = ('direct:check-raised:' + type(e).__name__, 'checking image-named textures raised %s: %s' % (type(e).__name__, str(e)[:150]))
        if res is not None and res[0] not in reported:
            images, effects = shrink_direct(images, effects, res[0])
            res = check_direct(images, effects) or res
        report(res, dict(kind='direct', images=images, effects=effects))
        if res is None:
            try:
                obs = direct_observe(images, effects)
            except Exception as e:
                obs = ['raised:' + type(e).__name__] * len(effects)
            for (eid, shader, props, declared), o in zip(effects, obs):
                if declared:
                    continue        # Pyc.DirectTex models effects without sampler parameters
                dlines.append('direct ' + ' '.join('%s:%s' % (k, im) for k, kind, im in props if kind == 'tex'))
                dactual.append((o, dict(kind='direct', images=images, effects=effects)))
    if ctx.lean_ok and dlines:
        for l, (a, rep), m in zip(dlines, dactual, ctx.driver('C07', dlines)):
            if a != m and 'corr:direct' not in reported:
                reported.add('corr:direct')
                ctx.violation('corr:direct', 'textures naming an image: the loader built %r, Pyc.DirectTex.run gives %r for %r' % (a, m, l), rep, found_input=False)
    for i in range(ctx.n(40, 1500)):
        seed = ctx.rng.randrange(10 ** 9)
        ctx.case(dict(kind='rename', seed=seed))
        ctx.count('rename-save')
        report(check_rename_save(seed), dict(kind='rename', seed=seed))
    if any(v['found_input'] for v in ctx.violations):
        ctx.violations[:] = [v for v in ctx.violations if v['found_input']]


def replay(ctx, rep):
    import collada
    k = rep.get('kind')
    res = None
    if k == 'graph':
        defs = [(a, list(b)) for a, b in rep['defs']]
        a, d = graph_impl(defs, rep['where'], rep['nest'])
        pr = graph_oracle(defs, rep['where'], d)
        print('  loader: %s' % a)
        ids = set(i for i, _ in defs)
        loadable = set()
        changed = True
        while changed:
            changed = False
            for i, refs in defs:
                if i not in loadable and all(x in loadable for x in refs):
                    loadable.add(i)
                    changed = True
        got = set(x for x in a.split('library=')[1].split(' ')[0].split(',') if x) if 'library=' in a else set()
        if rep['where'] == 'scene' and loadable != ids:
            return pr is not None
        return pr is not None or bool(loadable - got)
    if k == 'dangling':
        kind, pat, exp = [x for x in DANGLE if x[0] == rep['which']][0]
        res = check_dangling(docgen.generate(rep['seed']), kind, pat, exp)
        res = None if res == 'skip' else res
    elif k == 'skin':
        res = check_skin_sources(rep['seed'])
        res = None if res == 'skip' else res
    elif k == 'rename':
        res = check_rename_save(rep['seed'])
    elif k == 'direct':
        res = check_direct(rep['images'], [(a, b, [tuple(x) for x in c], e) for a, b, c, e in rep['effects']])
    elif k in ('doc', 'perm'):
        data = docgen.generate(rep['seed'])
        d = collada.Collada(io.BytesIO(data))
        pr = identity_check(d)
        res = ('identity', str(pr)) if pr else None
        if k == 'perm' and not res:
            dp = collada.Collada(io.BytesIO(permute_doc(data, random.Random(rep['seed']))))
            df = snap.diff(by_id(snap.snapshot(d)), by_id(snap.snapshot(dp)))
            res = ('permutation', str(df[:3])) if df else None
    if res:
        print('  ' + res[1])
    return res is not None
