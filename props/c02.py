"""C02 — in-place edits are persisted exactly by save.

Correspondence (ties Pyc/Model/Sync.lean to the code):
  (a) kernel: collada.util._syncChildren on random (children, wanted, managed predicate, before) vs
      Pyc.Sync.syncChildren;
  (b) sites: for every element whose children save() reconciles (libraries, <node>, <visual_scene>,
      <technique_common> of bind_material, <mesh> sources and primitives, <profile_COMMON> params)
      the children found after a real save() of an edited document vs the model applied to the
      children found before it and the current objects' elements.
Direct oracle (yields replays): snapshot(reload(write(edited model))) == snapshot(edited model) up to the
seven digits written, and ids of removed objects are absent / ids of present objects occur exactly once.
"""
import glob
import io
import os
import random
import re

from vlib import core, snap, modelgen, editgen

PID = 'C02'
LEAN_MODULES = ['Pyc.Model.Sync']
META = dict(
    level_text=('Proof: Pyc/Props/C02.lean proves for the reconciliation every save() ends with that the managed children '
                'become exactly the current objects\' elements in list order whatever the element held before '
                '(sync_managed, removed_gone, added_once, order_kept, sync_unmanaged, sync_idem) and, by induction over the '
                'object tree, that the saved element tree is the rendering of the current model only (save_eq_render, '
                'edits_persist): no edit history and no number of earlier saves can influence it. The model is tied to '
                'collada.util._syncChildren and to each save() site by a differential check on every run; the property itself '
                '(reload(write(edited)) == edited model) is evaluated on random edit histories over constructed and loaded documents.'),
    level_note=('Trusted: Lean kernel + standard axioms; Pyc/Model/Sync.lean as a rendering of _syncChildren and of the bottom-up '
                'save recursion (element identity modelled by labels); ElementTree child-list semantics; the edit generator '
                '(vlib/editgen.py) only produces self-consistent models (no dangling or cyclic references, sampler after its surface). '
                'Value-level lenses (attribute/child text updates) are covered by the direct oracle, not by a theorem.'),
    technique='Lean 4 theorems on the child-reconciliation model (put-get / put-put laws, structural induction over the object tree) + kernel and per-site correspondence + reload oracle over random edit histories',
)
DATA = os.path.join(core.REPO, 'collada', 'tests', 'data')
CORPUS = ['duck_triangles.dae', 'duck_polylist.dae', 'cube_tristrips.dae', 'trifans.dae', 'tristrips.dae',
          'empty_triangles.dae', 'empty_triangles_with_multiple_ns.dae']


def strip(s):
    for g in s['geometries']:
        g.pop('vertices', None)
    return s


# ----------------------------------------------------------------------------- kernel correspondence

def kernel_cases(rng, n):
    cases = []
    for _ in range(n):
        nold = rng.randint(0, 8)
        old = list(range(1, nold + 1))
        rng.shuffle(old)
        fresh = list(range(20, 20 + rng.randint(0, 4)))
        wanted = [x for x in old if rng.random() < 0.5] + fresh
        rng.shuffle(wanted)
        if rng.random() < 0.15 and wanted:
            wanted.append(rng.choice(wanted))     # the same element twice in the object list
        if rng.random() < 0.3:
            managed = '*'
        else:
            managed = sorted(set(x for x in old + fresh if rng.random() < 0.5))
        before = rng.choice(['_', '_'] + old + [99])
        cases.append((managed, wanted, old, before))
    return cases


def kernel_line(c):
    managed, wanted, old, before = c
    return 'sync %s ; %s ; %s ; %s' % ('*' if managed == '*' else ' '.join(map(str, managed)), ' '.join(map(str, wanted)),
                                       ' '.join(map(str, old)), before)


def kernel_impl(c):
    from collada.util import _syncChildren
    from xml.etree import ElementTree as ET
    managed, wanted, old, before = c
    elems = {}

    def el(u):
        if u not in elems:
            elems[u] = ET.Element('e', u=str(u))
        return elems[u]
    parent = ET.Element('p')
    for u in old:
        parent.append(el(u))
    mg = None if managed == '*' else (lambda ch: int(ch.get('u')) in managed)
    _syncChildren(parent, [el(u) for u in wanted], mg, None if before == '_' else el(before))
    return ' '.join(ch.get('u') for ch in parent)


# ----------------------------------------------------------------------------- documents and histories

def base_doc(kind, seed, opts=None):
    """returns (doc, gen)"""
    import collada
    gen = modelgen.Gen(seed, opts)
    if kind == 'constructed':
        return gen.build(), gen
    if kind == 'reloaded':
        d = gen.build()
        b = io.BytesIO()
        d.write(b)
        return collada.Collada(io.BytesIO(b.getvalue())), gen
    if kind == 'docgen':
        # loaded from a file pycollada did not write (strips, fans, bindings inside <vertices>, shared offsets, ...)
        from vlib import docgen
        doc = collada.Collada(io.BytesIO(docgen.generate(seed, dict(anim=False))))
    else:
        doc = collada.Collada(os.path.join(DATA, kind))
    gen.doc = doc
    return doc, gen


def sites(doc):
    """(label, parent element, managed spec, before element, wanted-thunk) for every reconciled element"""
    from collada import scene, source
    from collada.common import tag
    out = []
    root = doc.xmlnode.getroot()
    for name, attr in [('library_geometries', 'geometries'), ('library_controllers', 'controllers'), ('library_lights', 'lights'),
                       ('library_cameras', 'cameras'), ('library_images', 'images'), ('library_effects', 'effects'),
                       ('library_materials', 'materials'), ('library_nodes', 'nodes'), ('library_visual_scenes', 'scenes')]:
        node = root.find(doc.tag(name))
        if node is not None and len(getattr(doc, attr)):
            out.append(('lib:' + attr, node, '*', None, (lambda a=attr: [o.xmlnode for o in getattr(doc, a)])))
    for n in editgen.all_nodes(doc):
        out.append(('node', n.xmlnode, '*', None, (lambda n=n: [t.xmlnode for t in n.transforms] + [c.xmlnode for c in n.children])))
        for c in n.children:
            if isinstance(c, scene.GeometryNode) and c.materials:
                par = c.xmlnode.find('%s/%s' % (tag('bind_material'), tag('technique_common')))
                if par is not None:
                    out.append(('bind', par, '*', None, (lambda c=c: [m.xmlnode for m in c.materials])))
    for s in doc.scenes:
        out.append(('scene', s.xmlnode, '*', None, (lambda s=s: [n.xmlnode for n in s.nodes])))
    for g in doc.geometries:
        mesh = g.xmlnode.find(tag('mesh'))
        if mesh is not None:
            out.append(('mesh', mesh, 'mesh', None, (lambda g=g: ([s.xmlnode for s in g.sourceById.values() if isinstance(s, source.Source)],
                                                                  [p.xmlnode for p in g.primitives]))))
    for e in doc.effects:
        prof = e.xmlnode.find(tag('profile_COMMON'))
        if prof is not None and prof.find(tag('technique')) is not None:
            out.append(('params', prof, 'newparam', prof.find(tag('technique')), (lambda e=e: [p.xmlnode for p in e.params])))
    return out


class Labels(object):
    def __init__(self):
        self.m = {}
        self.keep = []

    def __call__(self, el):
        if id(el) not in self.m:
            self.m[id(el)] = len(self.m) + 1
            self.keep.append(el)
        return self.m[id(el)]


def site_lines(doc, before_state, lab):
    """protocol lines + actual children for each site after the save"""
    from collada.common import tag
    lines, actual, names = [], [], []
    for (name, parent, managed, before, wanted), old in before_state:
        w = wanted()
        known = set(old)
        if managed == 'mesh':
            known.update(lab(x) for part in w for x in part)
        else:
            known.update(lab(x) for x in w)
        # children that other steps of save() add (e.g. the double_sided <extra>) are not the reconciliation's business
        now = [lab(c) for c in parent if lab(c) in known]
        if managed == '*':
            lines.append('sync * ; %s ; %s ; _' % (' '.join(str(lab(x)) for x in w), ' '.join(map(str, old))))
            actual.append(' '.join(map(str, now)))
            names.append(name)
        elif managed == 'newparam':
            kinds = self_kinds[id(parent)]
            for c in parent:
                kinds[lab(c)] = c.tag
            for x in w:
                kinds[lab(x)] = x.tag
            mg = sorted(k for k, t in kinds.items() if t == tag('newparam'))
            lines.append('sync %s ; %s ; %s ; %s' % (' '.join(map(str, mg)) or '0', ' '.join(str(lab(x)) for x in w),
                                                     ' '.join(map(str, old)), lab(before)))
            actual.append(' '.join(map(str, now)))
            names.append(name)
        elif managed == 'mesh':
            srcs, prims = w
            kinds = self_kinds[id(parent)]
            for c in parent:
                kinds[lab(c)] = c.tag
            src_m = sorted(k for k, t in kinds.items() if t == tag('source'))
            vert = [k for k, t in kinds.items() if t == tag('vertices')]
            # two successive reconciliations: sources (before <vertices>), then primitives (before the first <extra>)
            lines.append('sync %s ; %s ; %s ; %s' % (' '.join(map(str, src_m)) or '0', ' '.join(str(lab(x)) for x in srcs),
                                                     ' '.join(map(str, old)), vert[0] if vert else '_'))
            actual.append(None)   # intermediate result, chained below
            names.append('mesh:sources')
            prim_m = sorted(k for k, t in kinds.items() if t not in (tag('source'), tag('vertices'), tag('extra')))
            extras = [k for k in old if kinds.get(k) == tag('extra')]
            lines.append(('CHAIN', ' '.join(map(str, prim_m)) or '0', ' '.join(str(lab(x)) for x in prims), extras[0] if extras else '_'))
            actual.append(' '.join(map(str, now)))
            names.append('mesh:prims')
    return lines, actual, names


self_kinds = {}
VALUE_KINDS = ['attr', 'attr', 'attr', 'attr', 'rename', 'rename', 'save', 'contributors', 'default_scene', 'matinputs', 'matinputs', 'matbind', 'srcdata', 'srcdata', 'save']


def capture(doc, lab):
    from collada.common import tag
    st = []
    self_kinds.clear()
    for site in sites(doc):
        parent = site[1]
        old = [lab(c) for c in parent]
        self_kinds[id(parent)] = dict((lab(c), c.tag) for c in parent)
        st.append((site, old))
    return st


def run_history(kind, seed, nops, ops=None, want_sites=False, kinds=None):
    """apply an edit history and evaluate the oracle. Returns dict(ok, what, hist, site=(lines, actual, names))"""
    import collada
    doc, gen = base_doc(kind, seed)
    hist = []
    removed_ids, idx = set(), 0
    for i in (ops if ops is not None else range(nops)):
        try:
            d = editgen.apply(doc, seed, i, gen, kinds)
        except Exception as e:
            core.note_skip('c02:edit', e)
            return dict(ok=True, skipped='edit raised %s' % type(e).__name__, hist=hist)
        if d:
            hist.append('%d:%s' % (i, d))
    expected = strip(snap.snapshot(doc, norm7=True, errors=False, derive_matrix=True))
    lab = Labels()
    before_state = capture(doc, lab) if want_sites else None
    out = dict(hist=hist, ok=True)
    try:
        doc.save()
        if want_sites:
            out['site'] = site_lines(doc, before_state, lab)
        # after the save the in-memory model (node matrices as they are now, not re-derived) is what a reload will give
        in_memory = strip(snap.snapshot(doc, norm7=True, errors=False))
        from collada.xmlutil import writeXML
        b1 = io.BytesIO()
        writeXML(doc.xmlnode, b1)
        once = b1.getvalue()
        buf = io.BytesIO()
        doc.write(buf)
    except Exception as e:
        out.update(ok=False, what='write of the edited model raised %s: %s' % (type(e).__name__, str(e)[:200]), sig='write:' + type(e).__name__)
        return out
    data = buf.getvalue()
    # the element tree as ONE save() left it (write() saves again, which would hide a save that lags one call behind)
    for data_, label in ((once, 'after a single save() '), (data, '')):
        try:
            d1 = collada.Collada(io.BytesIO(data_))
        except Exception as e:
            out.update(ok=False, what='%swritten document does not load: %s: %s' % (label, type(e).__name__, str(e)[:200]), sig='reload:' + type(e).__name__)
            return out
        got = strip(snap.snapshot(d1, errors=False))
        df = snap.diff(expected, got)
        if df:
            where = re.sub(r'\[\d+\]', '[]', df[0].split(':')[0])
            out.update(ok=False, what='%sreloaded model differs from the edited model at %s' % (label, '; '.join(df[:4])), sig='diff:' + where)
            return out
        df = snap.diff(in_memory, got)
        if df:
            where = re.sub(r'\[\d+\]', '[]', df[0].split(':')[0])
            out.update(ok=False, what='%sreloaded model differs from the model held in memory after the save at %s' % (label, '; '.join(df[:4])), sig='memory:' + where)
            return out
    if d1.errors:
        out.update(ok=False, what='reload recorded errors %s' % [type(e).__name__ for e in d1.errors], sig='reload-errors')
        return out
    # raw XML: every id of a library object occurs exactly once as an id attribute
    text = data.decode('utf-8', 'replace')
    ids = re.findall(r'<(?:geometry|light|camera|image|effect|material|visual_scene)\b[^>]*?\bid="([^"]*)"', text)
    want = [o.id for lib in ('geometries', 'lights', 'cameras', 'images', 'effects', 'materials', 'scenes') for o in getattr(doc, lib)]
    if sorted(ids) != sorted(want):
        out.update(ok=False, what='library object ids in the written XML %s differ from the model %s' % (sorted(ids), sorted(want)), sig='xml-ids')
    return out


def run(ctx):
    ctx.rule = ('edit histories (<=12 quick / <=40 thorough operations from vlib/editgen.py: add/insert/remove/adjacent removal/'
                'swap/reverse/replace/slice deletion in every ordered collection, attribute changes, id renames of referenced '
                'objects, default scene changes, intermediate saves) on constructed, write-reloaded and shipped corpus documents; '
                'non-trivial = at least 3 applied edits; distinct by (base, seed, applied edits). Kernel cases: random child lists, '
                'wanted lists (existing, new, repeated elements), managed predicates and insertion anchors.')
    # (a) kernel
    kc = kernel_cases(ctx.rng, ctx.n(1500, 40000))
    klines = [kernel_line(c) for c in kc]
    model = ctx.driver('C02', klines) if ctx.lean_ok else None
    bad_kernel = None
    for c, line, i in zip(kc, klines, range(len(kc))):
        got = kernel_impl(c)
        ctx.count('kernel')
        if model is not None and got != model[i] and bad_kernel is None:
            bad_kernel = (line, model[i], got)
    # (b) histories
    nhist = ctx.n(140, 4000)
    maxops = 12 if not ctx.thorough else 40
    bases = ['constructed', 'reloaded', 'docgen', 'docgen', 'docgen'] + CORPUS
    site_lines_all, site_meta = [], []
    reported = set()
    nvalue = ctx.n(400, 8000)
    for h in range(nhist + nvalue):
        kind = bases[h % len(bases)] if h % 3 == 2 else ('constructed' if h % 3 == 0 else 'reloaded')
        seed = ctx.rng.randrange(10 ** 9)
        nops = ctx.rng.randint(1, maxops)
        # the second block of histories only changes values (attributes, renames, contributors) with saves in between
        kinds = None if h < nhist else VALUE_KINDS
        if kinds:
            nops = ctx.rng.choice([1, 2, 3, 6])
        res = run_history(kind, seed, nops, want_sites=(h % 2 == 0 and h < nhist), kinds=kinds)
        ctx.case(dict(base=kind, seed=seed, nops=nops, hist=res.get('hist')), nontrivial=len(res.get('hist', [])) >= 3)
        ctx.count('base:' + ('corpus' if kind.endswith(('.dae', '.DAE')) else kind))
        for d in res.get('hist', []):
            ctx.count('edit:' + d.split(':', 1)[1])
        if res.get('skipped'):
            ctx.count('skipped')
            continue
        if not res['ok']:
            if res['sig'] not in reported:
                reported.add(res['sig'])
                ops = shrink(kind, seed, nops, res['sig'], kinds)
                r2 = run_history(kind, seed, nops, ops=ops, kinds=kinds)
                ctx.violation('c02:' + res['sig'], r2.get('what', res['what']) + ' | history: %s' % r2.get('hist'),
                              dict(kind='history', base=kind, seed=seed, nops=nops, ops=ops, kinds=kinds))
            continue
        if 'site' in res:
            lines, actual, names = res['site']
            site_lines_all.append((lines, actual, names, dict(base=kind, seed=seed, nops=nops)))
    for i in range(ctx.n(100, 1500)):
        bseed = ctx.rng.randrange(10 ** 6)
        try:
            res = bump_history(bseed)
        except Exception as e:
            res = 'skip'
            ctx.count('bump-map:raised:' + type(e).__name__)
        if res == 'skip':
            continue
        ctx.count('bump-map')
        ctx.case(dict(kind='bump-map', seed=bseed))
        if res and res[0] not in reported:
            reported.add(res[0])
            ctx.violation('c02:' + res[0], res[1], dict(kind='bump-map', seed=bseed))
    for i in range(ctx.n(40, 800)):
        vseed = ctx.rng.randrange(10 ** 6)
        try:
            res = vertex_inputs_history(vseed)
        except Exception as e:
            res = 'skip'
            ctx.count('vertex-inputs:edit-raised:' + type(e).__name__)
        if res == 'skip':
            continue
        ctx.count('vertex-inputs')
        ctx.case(dict(kind='vertex-inputs', seed=vseed))
        if res and res[0] not in reported:
            reported.add(res[0])
            ctx.violation('c02:' + res[0], res[1], dict(kind='vertex-inputs', seed=vseed))
    # site correspondence through the driver (CHAIN lines use the previous answer as their old list)
    if ctx.lean_ok:
        flat = []
        for lines, actual, names, meta in site_lines_all:
            for l in lines:
                flat.append(l)
        # resolve chains in two passes
        first = [l for l in flat if not isinstance(l, tuple)]
        ans = ctx.driver('C02', first) if first else []
        it = iter(ans)
        resolved, chain_req, chain_pos = [], [], []
        for l in flat:
            if isinstance(l, tuple):
                prev = resolved[-1]
                chain_req.append('sync %s ; %s ; %s ; %s' % (l[1], l[2], prev, l[3]))
                chain_pos.append(len(resolved))
                resolved.append(None)
            else:
                resolved.append(next(it))
        if chain_req:
            cans = ctx.driver('C02', chain_req)
            for p, a in zip(chain_pos, cans):
                resolved[p] = a
        k = 0
        for lines, actual, names, meta in site_lines_all:
            for l, a, nm in zip(lines, actual, names):
                want = resolved[k]
                k += 1
                ctx.count('site:' + nm)
                if a is not None and a != want and ('corr:site:' + nm) not in reported:
                    reported.add('corr:site:' + nm)
                    ctx.violation('corr:site:' + nm, 'children of a %s element after save() are %r, Pyc.Sync.syncChildren gives %r (request %r); the reload '
                                  'oracle found no failing input on this history, but sync_managed/save_eq_render no longer describe this site' % (nm, a, want, l),
                                  dict(kind='site', site=nm, **meta), found_input=False)
    if bad_kernel and not any(v['found_input'] for v in ctx.violations):
        ctx.violation('corr:kernel', 'collada.util._syncChildren and Pyc.Sync.syncChildren disagree on %r: model %r, implementation %r' % bad_kernel,
                      dict(kind='kernel', line=bad_kernel[0], model=bad_kernel[1], impl=bad_kernel[2]), found_input=False)
    ctx.assumptions.append('edit histories keep the model self-consistent (vlib/editgen.py); numeric comparison modulo the seven digits written')


def bump_history(seed):
    """effects whose bump map is already written into the document (after a save, or loaded): the bump map is replaced by another Map object,
    edited in place, taken away or given for the first time; save, reload, compare.  Returns None, 'skip' or (sig, what)"""
    import collada
    from collada import material
    r = random.Random('c02bump/%s' % seed)
    for attempt in range(8):       # a document that has an effect with a sampler
        doc = modelgen.build(seed + 1000003 * attempt, dict(effects=3))
        if any(isinstance(q, material.Sampler2D) for e in doc.effects for q in e.params):
            break
    else:
        return 'skip'
    if seed % 2:
        b = io.BytesIO()
        doc.write(b)
        doc = collada.Collada(io.BytesIO(b.getvalue()))
    else:
        doc.save()
    hist = []
    for e in doc.effects:
        samplers = [q for q in e.params if isinstance(q, material.Sampler2D)]
        if not samplers:
            continue
        k = r.choice(['replace', 'replace', 'inplace', 'remove', 'add'])
        if k == 'replace' and e.bumpmap is not None:
            e.bumpmap = material.Map(r.choice(samplers), r.choice(['BUMPUV2', 'TEX7']))
        elif k == 'inplace' and e.bumpmap is not None:
            e.bumpmap.texcoord = 'CHANNEL9'
            e.bumpmap.sampler = r.choice(samplers)
        elif k == 'remove' and e.bumpmap is not None:
            e.bumpmap = None
        elif k == 'add' and e.bumpmap is None:
            e.bumpmap = material.Map(r.choice(samplers), 'BUMPNEW')
        else:
            continue
        hist.append('%s:%s' % (e.id, k))
    if not hist:
        return 'skip'
    want = snap.snapshot(doc)['effects']
    b = io.BytesIO()
    doc.write(b)
    got = snap.snapshot(collada.Collada(io.BytesIO(b.getvalue())))['effects']
    df = snap.diff(want, got)
    if df:
        return ('bump-map', 'after %s the reloaded effects differ from the edited model: %s' % (hist, '; '.join(df[:3])))
    return None


def vertex_inputs_history(seed):
    """a loaded mesh whose <vertices> binds more than the positions (NORMAL, TEXCOORD next to POSITION): remove some of those bindings together
    with their sources, rebuild the primitives over the VERTEX input alone, save, reload. Returns None, 'skip' or (sig, what)"""
    import collada
    import numpy
    from collada import source, triangleset, lineset, polylist
    from vlib import docgen
    r = random.Random('c02vi/%s' % seed)
    doc = None
    for k in range(60):
        try:
            d = collada.Collada(io.BytesIO(docgen.generate(seed * 61 + k, dict(anim=False))))
        except Exception:
            continue
        cands = [(g, key) for g in d.geometries for key, v in g.sourceById.items() if isinstance(v, dict) and len(v) >= 3]
        if cands:
            doc = d
            break
    if doc is None:
        return 'skip'
    g, vkey = r.choice(cands)
    vdict = g.sourceById[vkey]
    extras = [sem for sem in vdict if sem != 'POSITION']
    drop = extras if r.random() < 0.6 else r.sample(extras, r.randint(1, len(extras)))
    used_elsewhere = set(t[2][1:] for p in g.primitives for sem, tupes in p.sources.items() for t in tupes if sem not in drop and sem != 'VERTEX')
    hist = []
    for sem in drop:
        src = vdict[sem]
        del vdict[sem]
        if src.id not in used_elsewhere and src.id in g.sourceById and not any(src is x for x in vdict.values()):
            del g.sourceById[src.id]
        hist.append('unbind %s(%s)' % (sem, src.id))
    # primitives over the VERTEX input alone (same vertex indices)
    new = []
    for p in g.primitives:
        il = source.InputList()
        il.addInput(0, 'VERTEX', '#' + vkey)
        vi = numpy.array(p.vertex_index).reshape(-1) if p.vertex_index is not None else numpy.array([], dtype=numpy.int32)
        if isinstance(p, triangleset.TriangleSet):
            new.append(g.createTriangleSet(vi, il, p.material))
        elif isinstance(p, lineset.LineSet):
            new.append(g.createLineSet(vi, il, p.material))
        elif isinstance(p, polylist.Polylist):
            new.append(g.createPolylist(vi, numpy.array(p.vcounts), il, p.material))
        else:
            new.append(g.createPolylist(vi, numpy.array(p.vcounts), il, p.material))
    g.primitives[:] = new
    expected = strip(snap.snapshot(doc, norm7=True, errors=False, derive_matrix=True))
    try:
        buf = io.BytesIO()
        doc.write(buf)
    except Exception as e:
        return ('vertex-inputs:write:' + type(e).__name__, 'after %s on geometry %s write raised %s: %s' % (hist, g.id, type(e).__name__, str(e)[:150]))
    try:
        d1 = collada.Collada(io.BytesIO(buf.getvalue()))
    except Exception as e:
        return ('vertex-inputs:reload:' + type(e).__name__, 'after %s on geometry %s the written document does not load: %s: %s' % (hist, g.id, type(e).__name__, str(e)[:150]))
    df = snap.diff(expected, strip(snap.snapshot(d1, errors=False)))
    if df:
        return ('vertex-inputs:diff', 'after %s on geometry %s the reloaded model differs from the edited model at %s' % (hist, g.id, '; '.join(df[:4])))
    for sem in drop:
        pass
    return None


def shrink(kind, seed, nops, sig, kinds=None):
    ops = list(range(nops))

    def fails(o):
        r = run_history(kind, seed, nops, ops=o, kinds=kinds)
        return (not r['ok']) and r.get('sig') == sig
    changed = True
    while changed and len(ops) > 0:
        changed = False
        for i in range(len(ops) - 1, -1, -1):
            cand = ops[:i] + ops[i + 1:]
            if fails(cand):
                ops = cand
                changed = True
    return ops


def replay(ctx, rep):
    if rep.get('kind') == 'kernel':
        c = rep['line']
        print('  kernel divergence recorded for %r' % c)
        return False
    if rep.get('kind') == 'bump-map':
        res = bump_history(rep['seed'])
        if res and res != 'skip':
            print('  ' + res[1])
        return bool(res) and res != 'skip'
    if rep.get('kind') == 'vertex-inputs':
        res = vertex_inputs_history(rep['seed'])
        if res and res != 'skip':
            print('  ' + res[1])
        return bool(res) and res != 'skip'
    r = run_history(rep['base'], rep['seed'], rep['nops'], ops=rep.get('ops'), kinds=rep.get('kinds'))
    if not r['ok']:
        print('  ' + r['what'])
    return not r['ok']
