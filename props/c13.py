"""C13 — transforms have their mathematical meaning and compose in document order.

Correspondence (Pyc.Tf in lean/Pyc/Model/Transform.lean through lean/drv/C13.lean):
  * single transforms of all five kinds, built through the public constructors and by loading
    <translate>/<rotate>/<scale>/<matrix>/<lookat> inside a <node> with collada.Collada(BytesIO):
    the 16 entries of Transform.matrix against the model's rational matrix. The harness hands
    the driver what a ring cannot compute: cos/sin of angle*pi/180 (libm's, as exact rationals)
    and the two reciprocal square roots of the lookat constructor (64-bit-accurate rationals).
  * node histories: a node constructed or loaded (transforms interleaved with other children),
    any sequence of Python list edits of node.transforms, save() by four routes; Node.matrix after
    construction, after loading and after every save, plus outcome/length of every edit.
Comparison is exact whenever all numbers involved are integers (composition: small-integer
matrices) or the transform is translate/scale/matrix; rotate and lookat entries are compared
within the float32 bound stated in TOL below.

Direct oracle on the implementation (yields the replays): geometric meaning computed with
fractions.Fraction — translate/scale on points and directions, row-major matrix entries, the
rotated basis by Rodrigues' formula with independently computed cos/sin of the angle in degrees,
lookat maps the origin to the eye, -Z to the unit vector towards the interest point and its
axes are an orthonormal right-handed frame on the side of `up`; Node.matrix equals the ordered
product of the matrices of the transforms currently in the list.
"""
import io
import math
from fractions import Fraction as F

PID = 'C13'
META = dict(
    level_text=('Proof: Pyc/Props/C13.lean proves over every commutative ring that the translate, scale, matrix (row-major), '
                'rotate (Rodrigues identity, unit axis fixed, orthogonal, determinant 1, right-handed, angles add) and lookat '
                '(origin to eye, -Z to the interest point, orthonormal right-handed frame) matrices of the model mean what the '
                'property says under the column-vector convention, that a product of any transform list acts as the nested '
                'application with the first listed transform outermost, and that for every node (constructed or loaded from any '
                'child list) and every history of list edits and saves the matrix after a save is the ordered product of the '
                'current list. The model is tied to collada/scene.py on every run by a differential check of every matrix entry '
                'for constructor and XML-load routes and of Node.matrix along random edit histories, and the geometric meaning is '
                'evaluated directly on the real objects with exact rational arithmetic, which is what yields replays.'),
    level_note=('Trusted: Lean kernel; axioms propext/Quot.sound/Classical.choice only; the hand-written model Pyc/Model/Transform.lean; '
                'the generator/canonicaliser in props/c13.py. cos, sin and the two square roots of lookat are parameters of the model '
                '(hypotheses c^2+s^2=1, rf^2*|eye-interest|^2=1, rs^2*|front x up|^2=1 in the theorems); libm accuracy and float32 '
                'rounding are assumed within the stated bound ((4+2|angle in rad|) ulp32 for rotate, 8 ulp32 for lookat with '
                'sin(front,up)>=0.3, first-order product bound for Node.matrix).'),
    technique='Lean 4 proofs by ring / linear_combination / induction over lists and histories (one node, and scenes of several nodes: scene_projection) + per-entry correspondence with collada.scene transforms and Node.matrix, bystander nodes included',
)
LEAN_MODULES = ['Pyc.Model.Transform']

U23 = F(1, 1 << 23)          # one float32 ulp at 1.0
NS = 'http://www.collada.org/2005/11/COLLADASchema'
KINDS = 'TSRML'
NVALS = dict(T=3, S=3, R=4, M=16, L=9)
TAG = dict(T='translate', S='scale', R='rotate', M='matrix', L='lookat')


# ----------------------------------------------------------------------------- numbers

def f32(v):
    import numpy
    return float(numpy.float32(v))


def fr(q):
    q = F(q)
    return str(q.numerator) if q.denominator == 1 else '%d/%d' % (q.numerator, q.denominator)


def cos_sin(angle_deg):
    """libm's cos/sin of angle*pi/180 in double precision, as the constructor computes them for a Python float"""
    import numpy
    a = float(angle_deg) * numpy.pi / 180.0
    return F(float(numpy.cos(a))), F(float(numpy.sin(a)))


def inv_sqrt(q):
    """1/sqrt(q) for a positive rational, relative error < 2^-64"""
    n, d = q.numerator, q.denominator
    rn, rd = math.isqrt(n), math.isqrt(d)
    if rn * rn == n and rd * rd == d:
        return F(rd, rn)                 # rational root: exact
    return F(math.isqrt((n * d) << 160), n << 80)


def cross(a, b):
    return [a[1] * b[2] - a[2] * b[1], a[2] * b[0] - a[0] * b[2], a[0] * b[1] - a[1] * b[0]]


def dot(a, b):
    return sum(x * y for x, y in zip(a, b))


def look_params(vals):
    """(rf, rs) or None when the lookat is degenerate / ill-conditioned (outside the quantifier)"""
    v = [F(x) for x in vals]
    if len(v) != 9:
        return F(1), F(1)
    eye, interest, up = v[0:3], v[3:6], v[6:9]
    d = [a - b for a, b in zip(eye, interest)]
    dd, uu = dot(d, d), dot(up, up)
    if dd == 0 or uu == 0:
        return None
    a = cross(d, up)
    aa = dot(a, a)
    if aa * 10000 < dd * uu * 9:        # sin(angle(front, up)) >= 0.03 (1.7 degrees); below that the frame is numerically undetermined
        return None
    rf = inv_sqrt(dd)
    cr = cross([rf * x for x in d], up)
    return rf, inv_sqrt(dot(cr, cr))


def matmul(a, b):
    return [[sum(a[i][k] * b[k][j] for k in range(4)) for j in range(4)] for i in range(4)]


def matvec(m, v):
    return [sum(m[i][k] * v[k] for k in range(4)) for i in range(4)]


IDENT = [[F(int(i == j)) for j in range(4)] for i in range(4)]


def to_frac(mat):
    """numpy 4x4 -> rows of Fractions, or None if not finite / wrong shape"""
    import numpy
    m = numpy.asarray(mat)
    if m.shape != (4, 4) or not numpy.all(numpy.isfinite(m)):
        return None
    return [[F(float(m[i, j])) for j in range(4)] for i in range(4)]


def flat(m):
    return [x for row in m for x in row]


def unflat(xs):
    return [list(xs[4 * i:4 * i + 4]) for i in range(4)]


# ----------------------------------------------------------------------------- tolerance

def tol_tf(kind, vals):
    """entrywise bound factor (in units of 2^-23 * max(1,|entry|)) for one transform's 3x3 block"""
    if kind == 'R' and len(vals) == 4:
        return 4 + 2 * abs(F(vals[3])) * F(355, 113) / 180
    if kind == 'L':
        if len(vals) == 9:
            d = [F(a) - F(b) for a, b in zip(vals[0:3], vals[3:6])]
            up = [F(x) for x in vals[6:9]]
            nz = [i for i in range(3) if d[i] != 0]
            nu = [i for i in range(3) if up[i] != 0]
            if len(nz) == 1 and len(nu) == 1 and nz != nu and abs(up[nu[0]]) == 1 and d[nz[0]].denominator == 1:
                return F(0)              # axis-aligned: every step of the constructor is exact in float32
            # the side vector is cross(front, up) normalised: its rounding error grows with 1/sin(angle(front, up))
            a = cross(d, up)
            aa, dd, uu = dot(a, a), dot(d, d), dot(up, up)
            m = 1
            while aa * 100 * m * m < dd * uu * 9 and m < 64:
                m += 1
            return F(8 * m * m)
        return F(8)
    return F(0)


def close(got, want, k):
    """|got - want| <= k * 2^-23 * max(1, |want|) entrywise; exact when k == 0. Returns worst ratio or None"""
    worst = F(0)
    for g, w in zip(got, want):
        dlt = abs(g - w)
        if dlt == 0:
            continue
        if k == 0:
            return None
        r = dlt / (U23 * max(1, abs(w)))
        if r > k:
            return None
        worst = max(worst, r)
    return worst


# ----------------------------------------------------------------------------- generator

def gen_val(rng, mode):
    if mode == 'int':
        return float(rng.randint(-3, 3))
    if mode == 'grid':
        return rng.choice([0.0, 1.0, -1.0, 2.0, -2.0, 0.5, -0.5, 0.25, 1.5, -2.5, 3.0, 10.0, 0.125])
    return f32(rng.uniform(-10, 10) if rng.random() < 0.8 else rng.uniform(-1000, 1000))


AXES = [(1, 0, 0), (0, 1, 0), (0, 0, 1), (-1, 0, 0), (0, -1, 0), (0, 0, -1),
        (0.6, 0.8, 0), (0, 0.6, -0.8), (2 / 3., 1 / 3., 2 / 3.), (1 / 3., -2 / 3., 2 / 3.),
        (0.7071067811865476, 0.7071067811865476, 0), (0.5773502691896258,) * 3]
ANGLES = [0, 90, -90, 180, 270, 360, 45, 30, 60, 120, -45, 1, 0.5, 89.5, 450, -180]


def gen_axis(rng):
    if rng.random() < 0.55:
        a = rng.choice(AXES)
    else:
        while True:
            a = [rng.gauss(0, 1) for _ in range(3)]
            n = math.sqrt(sum(x * x for x in a))
            if n > 0.1:
                a = [x / n for x in a]
                break
    return [f32(x) for x in a]


def gen_vals(rng, kind, mode):
    """parameter list of one transform; mode int = small integers (exact composition)"""
    if kind in 'TS':
        return [gen_val(rng, mode) for _ in range(3)]
    if kind == 'M':
        if mode == 'int':
            m = [[float(int(i == j)) for j in range(4)] for i in range(4)]
            for _ in range(rng.randint(1, 6)):
                m[rng.randint(0, 2 if rng.random() < 0.8 else 3)][rng.randint(0, 3)] = float(rng.randint(-2, 2))
            return flat(m)
        return [gen_val(rng, mode) for _ in range(16)]
    if kind == 'R':
        if mode == 'int':
            return [float(x) for x in rng.choice(AXES[:6])] + [float(rng.choice([0, 90, 180, 270, -90]))]
        ang = float(rng.choice(ANGLES)) if rng.random() < 0.5 else f32(rng.uniform(-360, 360))
        return gen_axis(rng) + [ang]
    if kind == 'L':
        for _ in range(200):
            if mode == 'int':
                eye = [float(rng.randint(-3, 3)) for _ in range(3)]
                ax = rng.randint(0, 2)
                interest = list(eye)
                interest[ax] += float(rng.choice([-4, -2, -1, 1, 2, 8]))
                up = [0.0, 0.0, 0.0]
                up[(ax + rng.choice([1, 2])) % 3] = float(rng.choice([1, -1]))
            else:
                eye = [gen_val(rng, mode) for _ in range(3)]
                interest = [gen_val(rng, mode) for _ in range(3)]
                up = rng.choice([[0.0, 1.0, 0.0], [0.0, 0.0, 1.0], [0.0, 2.0, 0.0],
                                 [gen_val(rng, mode) for _ in range(3)], gen_axis(rng)])
                if rng.random() < 0.25:
                    # an up vector a few degrees off the viewing direction (towards or away from the interest point): valid, just not comfortable
                    d = [a - b for a, b in zip(eye, interest)]
                    n = math.sqrt(sum(x * x for x in d))
                    if n > 0.1:
                        side = gen_axis(rng)
                        t = math.radians(rng.choice([3, 4, 5, 6, 7, 9, 12]))
                        sgn = rng.choice([1, -1])
                        up = [f32(sgn * math.cos(t) * d[i] / n + math.sin(t) * side[i]) for i in range(3)]
            vals = eye + interest + up
            if look_params(vals) is not None:
                return vals
        return [1.0, 2.0, 3.0, 1.0, 2.0, -5.0, 0.0, 1.0, 0.0]
    raise ValueError(kind)


def num_text(rng, v):
    forms = ['%.9g' % v, repr(float(v))]
    if float(v).is_integer() and abs(v) < 1e6:
        forms += ['%d' % int(v), '%d.0' % int(v), '%de0' % int(v), '%.1f' % v]
    return rng.choice(forms)


def text_of(rng, vals):
    sep = rng.choice([' ', ' ', ' ', '  ', '\n', ' \n  ', '\t'])
    pad = rng.choice(['', '', ' ', '\n  '])
    return pad + sep.join(num_text(rng, v) for v in vals) + pad


def gen_spec(rng, mode, kinds=KINDS):
    kind = rng.choice(kinds)
    return dict(k=kind, vals=gen_vals(rng, kind, mode), style=rng.choice(['py', 'py', 'f32', 'f64']))


def gen_tf_case(rng):
    mode = rng.choice(['int', 'grid', 'grid', 'rand', 'rand', 'rand'])
    spec = gen_spec(rng, mode)
    route = rng.choice(['ctor', 'load'])
    c = dict(type='tf', route=route, **spec)
    if route == 'load':
        c['text'] = text_of(rng, spec['vals'])
    return c


def gen_bad_case(rng):
    """malformed stream: wrong number of values (loaders; matrix and lookat constructors)"""
    kind = rng.choice(KINDS)
    route = 'load' if kind in 'TSR' else rng.choice(['ctor', 'load'])
    n = NVALS[kind]
    if route == 'ctor' and kind == 'L':
        lens = [3, 3, 3]
        lens[rng.randint(0, 2)] = rng.choice([1, 2, 4])
        vals = [gen_val(rng, 'grid') for _ in range(sum(lens))]
        return dict(type='tf', route='ctor', k='L', vals=vals, lens=lens, style='f32', bad=True)
    cnt = rng.choice([c for c in (1, n - 1, n + 1, n + 3, 2 * n) if c > 0 and c != n])
    vals = [gen_val(rng, 'grid') for _ in range(cnt)]
    c = dict(type='tf', route=route, k=kind, vals=vals, style='f32', bad=True)
    if route == 'load':
        c['text'] = text_of(rng, vals)
    return c


def gen_node_case(rng, maxops):
    exact = rng.random() < 0.5
    mode = 'int' if exact else rng.choice(['grid', 'rand'])
    kinds = 'TTSSMML' if exact else 'TSRRMLTS'

    def spec():
        return gen_spec(rng, mode, kinds)

    def specs(lo, hi):
        return [spec() for _ in range(rng.randint(lo, hi))]

    start = rng.choice(['new', 'load'])
    tfs = specs(0, 5)
    c = dict(type='node', start=start, depth=rng.randint(0, 2), tfs=tfs, exact=exact,
             save=rng.choice(['node', 'root', 'doc', 'write']))
    if start == 'load':
        kids = []
        for s in tfs:
            while rng.random() < 0.3:
                kids.append(rng.choice(['node', 'extra']))
            kids.append(dict(s, text=text_of(rng, s['vals'])))
        while rng.random() < 0.3:
            kids.append(rng.choice(['node', 'extra']))
        c['kids'] = kids

    def pos():
        return rng.choice([0, 0, 1, 2, -1, -1, -2, 3, 5, -6, rng.randint(-7, 7)])
    ops = []
    cur = list(tfs)          # the generator's own copy of the list, to aim in-place edits at transforms that exist

    def simulate(op):
        try:
            k = op[0]
            if k == 'append':
                cur.append(op[1])
            elif k == 'insert':
                cur.insert(op[1], op[2])
            elif k in ('set', 'param'):
                cur[op[1]] = op[2]
            elif k == 'pop':
                cur.pop() if op[1] is None else cur.pop(op[1])
            elif k == 'del':
                del cur[op[1]]
            elif k == 'swap':
                cur[op[1]], cur[op[2]] = cur[op[2]], cur[op[1]]
            elif k == 'reverse':
                cur.reverse()
            elif k == 'clear':
                del cur[:]
            elif k == 'extend':
                cur.extend(op[1])
            elif k == 'assign':
                cur[:] = op[1]
        except IndexError:
            pass
    for _ in range(rng.randint(1, maxops)):
        k = rng.choice(['append', 'append', 'insert', 'insert', 'set', 'pop', 'pop', 'del', 'swap', 'swap', 'param', 'param', 'param',
                        'reverse', 'reverse', 'clear', 'extend', 'assign', 'save', 'save', 'save'])
        before = len(ops)
        if k == 'param':
            # change the parameters of a transform that is in the list, in place (t.x = ..., t.angle = ..., t.eye = ...)
            if cur:
                i = rng.randrange(len(cur))
                old = cur[i]
                ops.append([k, rng.choice([i, i - len(cur)]), dict(k=old['k'], vals=gen_vals(rng, old['k'], mode), style=old.get('style', 'py'))])
        elif k == 'append':
            ops.append([k, spec()])
        elif k in ('insert', 'set'):
            ops.append([k, pos(), spec()])
        elif k == 'pop':
            ops.append([k, None if rng.random() < 0.4 else pos()])
        elif k == 'del':
            ops.append([k, pos()])
        elif k == 'swap':
            ops.append([k, pos(), pos()])
        elif k in ('extend', 'assign'):
            if k == 'assign' and rng.random() < 0.5:
                continue
            ops.append([k, specs(0, 3)])
        elif k == 'clear':
            if rng.random() < 0.3:
                ops.append([k])
        else:
            ops.append([k])
        for o in ops[before:]:
            simulate(o)
    ops.append(['save'])
    c['ops'] = ops
    return c


# ----------------------------------------------------------------------------- protocol lines

def ctor_words(spec):
    k, vals = spec['k'], [F(v) for v in spec['vals']]
    if k in 'TSM':
        return [k] + [fr(v) for v in vals]
    if k == 'R':
        c, s = cos_sin(spec['vals'][3])
        return ['R'] + [fr(v) for v in vals[:3]] + [fr(c), fr(s)]
    lens = spec.get('lens', [3, 3, 3])
    p = look_params(spec['vals']) or (F(1), F(1))
    parts, i = [], 0
    for n in lens:
        parts.append(' '.join(fr(v) for v in vals[i:i + n]))
        i += n
    return ['L', ' ; '.join(parts), ';', fr(p[0]), fr(p[1])]


def load_words(spec):
    k, vals = spec['k'], [F(v) for v in spec['vals']]
    w = [k] + [fr(v) for v in vals]
    if k == 'R':
        c, s = cos_sin(spec['vals'][3]) if len(vals) == 4 else (F(1), F(0))
        w += [';', fr(c), fr(s)]
    if k == 'L':
        p = look_params(spec['vals']) or (F(1), F(1))
        w += [';', fr(p[0]), fr(p[1])]
    return w


def tf_line(c):
    return ' '.join((['ctor'] + ctor_words(c)) if c['route'] == 'ctor' else (['load'] + load_words(c)))


def op_line(op):
    k = op[0]
    if k == 'append':
        return ' '.join(['node', k] + ctor_words(op[1]))
    if k in ('insert', 'set'):
        return ' '.join(['node', k, str(op[1])] + ctor_words(op[2]))
    if k == 'param':        # for the list model an in-place change of parameters is the replacement of that element
        return ' '.join(['node', 'set', str(op[1])] + ctor_words(op[2]))
    if k == 'pop':
        return 'node pop' if op[1] is None else 'node pop %d' % op[1]
    if k == 'del':
        return 'node del %d' % op[1]
    if k == 'swap':
        return 'node swap %d %d' % (op[1], op[2])
    if k in ('extend', 'assign'):
        return ' '.join(['node', k] + ' | '.join(' '.join(ctor_words(s)) for s in op[1]).split())
    return 'node ' + k


def node_lines(c):
    if c['start'] == 'new':
        first = ' '.join(['node', 'new'] + ' | '.join(' '.join(ctor_words(s)) for s in c['tfs']).split())
    else:
        first = ' '.join(['node', 'load'] + ' | '.join('O' if isinstance(k, str) else ' '.join(load_words(k))
                                                        for k in c['kids']).split())
    return [first] + [op_line(op) for op in c['ops']]


def lines_of(c):
    return [tf_line(c)] if c['type'] == 'tf' else node_lines(c)


# ----------------------------------------------------------------------------- the real code

def err_name(e):
    from collada.common import DaeError
    return type(e).__name__ if isinstance(e, DaeError) else 'raw:' + type(e).__name__


def make_tf(spec):
    """a transform object through the public constructor"""
    import numpy
    from collada import scene
    k, vals, style = spec['k'], spec['vals'], spec.get('style', 'py')

    def sc(v):
        if style == 'f32':
            return numpy.float32(v)
        if style == 'py' and float(v).is_integer():
            return int(v)
        return float(v)

    def arr(vs):
        if style == 'py':
            return tuple(sc(v) for v in vs)
        return numpy.array(vs, dtype=numpy.float32 if style == 'f32' else numpy.float64)
    if k == 'T':
        return scene.TranslateTransform(*[sc(v) for v in vals])
    if k == 'S':
        return scene.ScaleTransform(*[sc(v) for v in vals])
    if k == 'R':
        return scene.RotateTransform(*[sc(v) for v in vals])
    if k == 'M':
        return scene.MatrixTransform(numpy.array(vals, dtype=numpy.float64 if style == 'f64' else numpy.float32))
    lens = spec.get('lens', [3, 3, 3])
    a, b = lens[0], lens[0] + lens[1]
    return scene.LookAtTransform(arr(vals[:a]), arr(vals[a:b]), arr(vals[b:]))


def set_params(t, spec):
    """write the parameters of `spec` into the existing transform object `t`; False if it is of another kind"""
    import numpy
    fresh = make_tf(spec)
    if type(fresh) is not type(t):
        return False
    for a in ('x', 'y', 'z', 'angle', 'eye', 'interest', 'upvector'):
        if hasattr(fresh, a):
            cur, new = getattr(t, a), getattr(fresh, a)
            if isinstance(cur, numpy.ndarray) and isinstance(new, numpy.ndarray) and cur.shape == new.shape and sum(map(ord, repr(spec.get('vals')))) % 2 == 0:
                cur[...] = new          # an array parameter edited in place (`la.eye[0] = 7`): the same object, other values
            else:
                setattr(t, a, new)
    if spec['k'] == 'M':
        t.matrix = numpy.array(fresh.matrix)
    return True


def doc_bytes(body):
    return ('<?xml version="1.0" encoding="UTF-8"?>\n<COLLADA xmlns="%s" version="1.4.1">'
            '<asset><created>2020-01-01T00:00:00Z</created><modified>2020-01-01T00:00:00Z</modified></asset>'
            '<library_visual_scenes><visual_scene id="vs">%s</visual_scene></library_visual_scenes>'
            '<scene><instance_visual_scene url="#vs"/></scene></COLLADA>' % (NS, body)).encode('utf-8')


def elem_xml(k):
    return '<%s>%s</%s>' % (TAG[k['k']], k['text'], TAG[k['k']])


def load_doc(body):
    import collada
    import warnings
    with warnings.catch_warnings():
        warnings.simplefilter('ignore')
        return collada.Collada(io.BytesIO(doc_bytes(body)))


def real_tf(c):
    """('ok', 16 Fractions) | ('err', class name)"""
    import warnings
    try:
        with warnings.catch_warnings():
            warnings.simplefilter('ignore')
            if c['route'] == 'ctor':
                t = make_tf(c)
            else:
                doc = load_doc('<node id="n">%s</node>' % elem_xml(c))
                ts = doc.scene.nodes[0].transforms
                if len(ts) != 1:
                    return ('err', 'raw:%d-transforms-loaded' % len(ts))
                t = ts[0]
        m = to_frac(t.matrix)
        if m is None:
            return ('err', 'raw:matrix-not-finite-4x4')
        return ('ok', flat(m))
    except Exception as e:       # noqa
        return ('err', err_name(e))


# ----------------------------------------------------------------------------- oracle: single transform

def oracle_tf(c, got):
    """geometric meaning, exact rationals. Returns list of (aspect, description)"""
    k, vals = c['k'], [F(v) for v in c['vals']]
    bad = []
    if c.get('bad'):
        return bad          # the property does not speak about wrong counts; correspondence does
    if got[0] != 'ok':
        return [('raises', '%s %s of %s raised %s' % (TAG[k], c['route'], c['vals'], got[1]))]
    m = unflat(got[1])
    probes = [[F(1), F(0), F(0)], [F(0), F(1), F(0)], [F(0), F(0), F(1)], [F(2), F(-3), F(5)]]
    if k == 'T':
        for p in probes:
            if matvec(m, p + [F(1)]) != [p[i] + vals[i] for i in range(3)] + [F(1)]:
                bad.append(('def', 'translate%s does not move the point %s by the offset' % (c['vals'], p)))
            if matvec(m, p + [F(0)]) != p + [F(0)]:
                bad.append(('def', 'translate%s moves the direction %s' % (c['vals'], p)))
    elif k == 'S':
        for p in probes:
            for w in (F(0), F(1)):
                if matvec(m, p + [w]) != [p[i] * vals[i] for i in range(3)] + [w]:
                    bad.append(('def', 'scale%s does not scale %s componentwise' % (c['vals'], p)))
    elif k == 'M':
        for i in range(4):
            e = [F(int(j == i)) for j in range(4)]
            if matvec(m, e) != [vals[4 * r + i] for r in range(4)]:
                bad.append(('row-major', 'matrix: image of basis vector %d is not entries %d,%d,%d,%d of the text' % (i, i, i + 4, i + 8, i + 12)))
    elif k == 'R':
        a, ang = vals[:3], c['vals'][3]
        cc, ss = F(math.cos(math.radians(ang))), F(math.sin(math.radians(ang)))
        kk = tol_tf('R', c['vals'])
        for p in probes[:3]:
            ax = cross(a, p)
            ad = dot(a, p)
            want = [cc * p[i] + ss * ax[i] + (1 - cc) * ad * a[i] for i in range(3)] + [F(0)]
            if close(matvec(m, p + [F(0)]), want, kk) is None:
                bad.append(('rodrigues', 'rotate%s maps %s to %s, right-handed rotation by %s degrees gives %s'
                            % (c['vals'], [float(x) for x in p], [float(x) for x in matvec(m, p + [F(0)])], ang,
                               [float(x) for x in want])))
                break
        if matvec(m, [F(0)] * 3 + [F(1)]) != [F(0)] * 3 + [F(1)] or m[3] != [F(0), F(0), F(0), F(1)]:
            bad.append(('affine', 'rotate%s moves the origin' % (c['vals'],)))
    elif k == 'L':
        eye, interest, up = vals[0:3], vals[3:6], vals[6:9]
        kk = tol_tf('L', vals)
        if matvec(m, [F(0), F(0), F(0), F(1)]) != eye + [F(1)]:
            bad.append(('eye', 'lookat(eye=%s, interest=%s, up=%s) maps the origin to %s, not to the eye'
                        % (c['vals'][0:3], c['vals'][3:6], c['vals'][6:9],
                           [float(x) for x in matvec(m, [F(0), F(0), F(0), F(1)])])))
        d = [b - a for a, b in zip(eye, interest)]
        n = inv_sqrt(dot(d, d))
        want = [x * n for x in d] + [F(0)]
        gotz = matvec(m, [F(0), F(0), F(-1), F(0)])
        if close(gotz, want, kk) is None:
            bad.append(('minus-z', 'lookat(eye=%s, interest=%s, up=%s) maps -Z to %s, the unit vector to the interest point is %s'
                        % (c['vals'][0:3], c['vals'][3:6], c['vals'][6:9], [float(x) for x in gotz], [float(x) for x in want])))
        cols = [[m[r][j] for r in range(3)] for j in range(3)]
        gram_ok = all(close([dot(cols[i], cols[j])], [F(int(i == j))], 4 * kk) is not None
                      for i in range(3) for j in range(3))
        det = dot(cols[0], cross(cols[1], cols[2]))
        if not gram_ok or close([det], [F(1)], 8 * kk) is None or dot(cols[1], up) <= 0 or m[3] != [F(0), F(0), F(0), F(1)]:
            bad.append(('frame', 'lookat(eye=%s, interest=%s, up=%s): axes %s are not an orthonormal right-handed frame on the side of up'
                        % (c['vals'][0:3], c['vals'][3:6], c['vals'][6:9], [[float(x) for x in col] for col in cols])))
    return bad


# ----------------------------------------------------------------------------- node histories on the real code

class RealNode(object):
    def __init__(self, c):
        import collada
        from collada import scene
        self.c = c
        depth = c['depth']
        from vlib import prelude
        prelude.touch()
        if c['start'] == 'new':
            self.doc = collada.Collada()
            # another node of the same scene, made without a transform list and given one transform afterwards
            sib = scene.Node('sib')
            sib.transforms.append(scene.TranslateTransform(1.0, 0.0, 0.0))
            leaf = scene.Node('leaf')
            if c['tfs']:
                self.node = scene.Node('target', children=[leaf], transforms=[make_tf(s) for s in c['tfs']])
            else:       # a node that starts without transforms is usually made without the argument
                self.node = scene.Node('target', children=[leaf])
            self.bystanders = [(leaf, 0), (sib, None)]
            top = self.node
            for d in range(depth):
                top = scene.Node('wrap%d' % d, children=[top], transforms=[scene.TranslateTransform(1.0, 0.0, 0.0)])
                self.bystanders.append((top, 1))
            self.root = top
            sc = scene.Scene('vs', [top, sib])
            self.doc.scenes.append(sc)
            self.doc.scene = sc
        else:
            body = ''
            nk = 0
            for k in c['kids']:
                if k == 'node':
                    body += '<node id="kid%d"><translate>1 0 0</translate></node>' % nk
                    nk += 1
                elif k == 'extra':
                    body += '<extra><technique profile="x"><foo>1 2 3</foo></technique></extra>'
                else:
                    body += elem_xml(k)
            xml = '<node id="target" name="t">%s</node>' % body
            for d in range(depth):
                xml = '<node id="wrap%d"><translate>1 0 0</translate>%s</node>' % (d, xml)
            self.doc = load_doc(xml)
            self.root = self.doc.scene.nodes[0]
            n = self.root
            self.bystanders = []
            for d in range(depth):
                self.bystanders.append((n, 1))
                n = [ch for ch in n.children if isinstance(ch, scene.Node)][0]
            self.node = n
            self.bystanders += [(ch, 1) for ch in n.children if isinstance(ch, scene.Node)]
            self.nkids = nk

    def others(self):
        """the nodes around the target, whose transform lists no operation touches: None, or what is wrong with one of them"""
        for n, k in self.bystanders:
            if k is None:       # the sibling: one transform, its matrix is recomputed by a save that reaches it
                if len(n.transforms) != 1:
                    return 'node %r, which was given one transform and then left alone, has %d' % (n.id, len(n.transforms))
                continue
            want = [[1.0, 0.0, 0.0, 1.0 if k else 0.0], [0.0, 1.0, 0.0, 0.0], [0.0, 0.0, 1.0, 0.0], [0.0, 0.0, 0.0, 1.0]]
            if len(n.transforms) != k:
                return 'node %r, which no operation touched, has %d transforms (it was made with %d)' % (n.id, len(n.transforms), k)
            if n.matrix.tolist() != want:
                return 'node %r, which no operation touched, has the matrix %s (its %d transforms give %s)' % (n.id, n.matrix.tolist(), k, want)
        return None

    def observe(self):
        """('ok n=<len>', matrix Fractions, oracle verdict)"""
        ts = self.node.transforms
        m = to_frac(self.node.matrix)
        mats = [to_frac(t.matrix) for t in ts]
        return 'ok n=%d' % len(ts), m, mats

    def apply(self, op):
        import warnings
        k = op[0]
        node = self.node
        if k == 'save':
            with warnings.catch_warnings():
                warnings.simplefilter('ignore')
                how = self.c['save']
                if how == 'node':
                    node.save()
                elif how == 'root':
                    self.root.save()
                elif how == 'doc':
                    self.doc.save()
                else:
                    self.doc.write(io.BytesIO())
            return None
        try:
            l = node.transforms
            if k == 'append':
                l.append(make_tf(op[1]))
            elif k == 'insert':
                l.insert(op[1], make_tf(op[2]))
            elif k == 'set':
                l[op[1]] = make_tf(op[2])
            elif k == 'param':
                set_params(l[op[1]], op[2]) or l.__setitem__(op[1], make_tf(op[2]))
            elif k == 'pop':
                l.pop() if op[1] is None else l.pop(op[1])
            elif k == 'del':
                del l[op[1]]
            elif k == 'swap':
                l[op[1]], l[op[2]] = l[op[2]], l[op[1]]
            elif k == 'reverse':
                l.reverse()
            elif k == 'clear':
                del l[:]
            elif k == 'extend':
                l.extend([make_tf(s) for s in op[1]])
            elif k == 'assign':
                node.transforms = [make_tf(s) for s in op[1]]
            else:
                raise AssertionError(op)
            return 'ok n=%d' % len(node.transforms)
        except IndexError:
            return 'fail:IndexError n=%d' % len(node.transforms)


def product_bound(mats, ks):
    """exact ordered product, and the entrywise float32 bound for it:
    4(k+1)*2^-24*|M1|..|Mk|  (rounding of the k dot products)  +  sum_i |M1|..E_i..|Mk|
    where E_i is the bound on transform i's own entries (ks[i] ulp32 of max(1,|entry|) on its 3x3 block)"""
    k = len(mats)
    p = IDENT
    for m in mats:
        p = matmul(p, m)
    ab = [[[abs(x) for x in row] for row in m] for m in mats]
    pa = IDENT
    for a in ab:
        pa = matmul(pa, a)
    bound = [[2 * (k + 1) * U23 * pa[i][j] for j in range(4)] for i in range(4)]
    for idx, kk in enumerate(ks):
        if kk == 0:
            continue
        e = [[kk * U23 * max(1, ab[idx][i][j]) if (i < 3 and j < 3) else F(0) for j in range(4)] for i in range(4)]
        t = IDENT
        for a in ab[:idx]:
            t = matmul(t, a)
        t = matmul(t, e)
        for a in ab[idx + 1:]:
            t = matmul(t, a)
        for i in range(4):
            for j in range(4):
                bound[i][j] += t[i][j]
    exact_ok = all(x.denominator == 1 for m in mats for x in flat(m)) and all(x < (1 << 24) for x in flat(pa))
    return p, bound, exact_ok


def within(got, want, bound, exact):
    for g, w, b in zip(flat(got), flat(want), flat(bound)):
        if g != w and (exact or abs(g - w) > 2 * b):
            return False
    return True


def model_specs(c):
    """the specs of the transforms in the list after construction and after every operation (Python list semantics)"""
    cur = [dict(x) for x in (c['tfs'] if c['start'] == 'new' else [k for k in c['kids'] if not isinstance(k, str)])]
    out = [list(cur)]
    for op in c['ops']:
        k = op[0]
        try:
            if k == 'append':
                cur.append(op[1])
            elif k == 'insert':
                cur.insert(op[1], op[2])
            elif k in ('set', 'param'):
                cur[op[1]] = op[2]
            elif k == 'pop':
                cur.pop() if op[1] is None else cur.pop(op[1])
            elif k == 'del':
                del cur[op[1]]
            elif k == 'swap':
                cur[op[1]], cur[op[2]] = cur[op[2]], cur[op[1]]
            elif k == 'reverse':
                cur.reverse()
            elif k == 'clear':
                del cur[:]
            elif k == 'extend':
                cur.extend(op[1])
            elif k == 'assign':
                cur = list(op[1])
        except IndexError:
            pass
        out.append(list(cur))
    return out


def run_node(c):
    """execute a node case on the real code.
    Returns (answers, failure): answers[i] = (text, matrix|None, kfactors) per protocol line;
    failure = None | (step index, aspect, description) from the direct oracle"""
    answers = []
    try:
        rn = RealNode(c)
    except Exception as e:          # noqa
        return [('err ' + err_name(e), None, None)], (0, c['start'], 'building the node raised %s' % err_name(e))

    specs = model_specs(c)

    def observed(step, label):
        other = rn.others()
        if other:
            return (step, 'bystander', 'after %s: %s' % (label, other))
        text, m, mats = rn.observe()
        if m is None or any(x is None for x in mats):
            answers.append((text, None, None))
            return (step, label, 'Node.matrix is not a finite 4x4 array')
        answers.append((text, m, mats))
        # every transform in the list still means what its parameters say (saving recomputes the matrices from them)
        sp = specs[step] if step < len(specs) else None
        if sp is not None and len(sp) == len(mats):
            for i, (spec, tm) in enumerate(zip(sp, mats)):
                tc = dict(spec, type='tf', route='ctor')
                wrong = oracle_tf(tc, ('ok', flat(tm)))
                if wrong and not oracle_tf(tc, real_tf(tc)):
                    return (step, label, 'after %s transform %d of the node (%s %s) has a matrix that is not what its parameters mean: %s'
                            % (label, i, TAG[spec['k']], spec['vals'], wrong[0][1]))
        want, bound, exact = product_bound(mats, [0] * len(mats))
        if not within(m, want, bound, exact):
            return (step, label, 'Node.matrix after %s is %s but the ordered product of its %d transforms is %s'
                    % (label, [[float(x) for x in r] for r in m], len(mats), [[float(x) for x in r] for r in want]))
        return None
    bad = observed(0, 'construction' if c['start'] == 'new' else 'loading')
    if bad:
        return answers, bad
    if c['start'] == 'load':
        elems = [k for k in c['kids'] if not isinstance(k, str)]
        if len(rn.node.transforms) != len(elems):
            return answers, (0, 'loading', 'loaded node has %d transforms, the file has %d' % (len(rn.node.transforms), len(elems)))
        # document order: the i-th loaded transform means what the i-th transform element of the file says
        for i, (k, m) in enumerate(zip(elems, answers[0][2])):
            tc = dict(k, type='tf', route='load')
            wrong = oracle_tf(tc, ('ok', flat(m)))
            alone = oracle_tf(tc, real_tf(tc))
            if alone:           # the element itself is wrong, wherever it stands: a transform defect, not an ordering one
                return answers, (0, 'tf:%s:%s' % (k['k'], alone[0][0]), alone[0][1])
            if wrong:
                return answers, (0, 'loading', 'transform %d of the loaded node is not what element %d of the file (<%s>%s) means: %s'
                                 % (i, i, TAG[k['k']], k['text'].strip(), wrong[0][1]))
    for i, op in enumerate(c['ops']):
        try:
            out = rn.apply(op)
        except Exception as e:      # noqa
            answers.append(('raw:' + type(e).__name__, None, None))
            return answers, (i + 1, 'save' if op[0] == 'save' else op[0], '%s raised %s' % (op[0], type(e).__name__))
        if out is None:
            bad = observed(i + 1, 'save')
            if bad:
                return answers, bad
        else:
            answers.append((out, None, None))
    return answers, None


def case_specs(c):
    """every transform spec a node case mentions"""
    if c['start'] == 'load':
        out = [dict(k, type='tf', route='load') for k in c['kids'] if not isinstance(k, str)]
    else:
        out = [dict(s, type='tf', route='ctor') for s in c['tfs']]
    for op in c['ops']:
        for x in op[1:]:
            if isinstance(x, dict):
                out.append(dict(x, type='tf', route='ctor'))
            elif isinstance(x, list):
                out.extend(dict(y, type='tf', route='ctor') for y in x)
    return out


def spec_k(s):
    return tol_tf(s['k'], s['vals'])


def model_ks(c):
    """replay the list edits on the per-transform tolerance factors so that the correspondence bound
    knows which positions hold a rotate / lookat"""
    ks = [spec_k(s) for s in c['tfs']]
    out = [list(ks)]
    for op in c['ops']:
        k = op[0]
        n = len(ks)

        def norm(i):
            j = i + n if i < 0 else i
            return j if 0 <= j < n else None
        if k == 'append':
            ks.append(spec_k(op[1]))
        elif k == 'insert':
            i = op[1]
            i = max(0, i + n) if i < 0 else min(i, n)
            ks.insert(i, spec_k(op[2]))
        elif k in ('set', 'param'):
            if norm(op[1]) is not None:
                ks[norm(op[1])] = spec_k(op[2])
        elif k == 'pop':
            if op[1] is None:
                if ks:
                    ks.pop()
            elif norm(op[1]) is not None:
                ks.pop(norm(op[1]))
        elif k == 'del':
            if norm(op[1]) is not None:
                ks.pop(norm(op[1]))
        elif k == 'swap':
            a, b = norm(op[1]), norm(op[2])
            if a is not None and b is not None:
                ks[a], ks[b] = ks[b], ks[a]
        elif k == 'reverse':
            ks.reverse()
        elif k == 'clear':
            ks = []
        elif k == 'extend':
            ks.extend(spec_k(s) for s in op[1])
        elif k == 'assign':
            ks = [spec_k(s) for s in op[1]]
        out.append(list(ks))
    return out


# ----------------------------------------------------------------------------- shrinking

def shrink_node(c, pred):
    c = dict(c)
    changed = True
    while changed:
        changed = False
        for i in range(len(c['ops']) - 1, -1, -1):
            cand = dict(c, ops=c['ops'][:i] + c['ops'][i + 1:])
            if pred(cand):
                c = cand
                changed = True
        if c['start'] == 'new':
            for i in range(len(c['tfs']) - 1, -1, -1):
                cand = dict(c, tfs=c['tfs'][:i] + c['tfs'][i + 1:])
                if pred(cand):
                    c = cand
                    changed = True
        else:
            for i in range(len(c['kids']) - 1, -1, -1):
                kids = c['kids'][:i] + c['kids'][i + 1:]
                cand = dict(c, kids=kids, tfs=[k for k in kids if not isinstance(k, str)])
                if pred(cand):
                    c = cand
                    changed = True
        if c['depth'] > 0:
            cand = dict(c, depth=0)
            if pred(cand):
                c = cand
                changed = True
    return c


# ----------------------------------------------------------------------------- run

def parse_model_matrix(words):
    return [F(w) for w in words]


def check_tf(ctx, c, model, reported, stats):
    got = real_tf(c)
    ctx.count('tf:%s:%s%s' % (c['k'], c['route'], ':bad-count' if c.get('bad') else ''))
    ctx.count('outcome:' + (got[0] if got[0] == 'ok' else got[1]))
    ctx.case(dict(c, line=tf_line(c)), nontrivial=not c.get('bad') and any(v not in (0.0, 1.0) for v in c['vals']))
    bads = oracle_tf(c, got)
    for aspect, what in bads:
        sig = 'tf:%s:%s' % (c['k'], aspect)
        if sig not in reported:
            reported.add(sig)
            ctx.violation(sig, what, dict(kind='oracle', case=c))
    if bads or model is None:
        return
    sig = 'corr:tf:%s:%s' % (c['k'], c['route'])
    msg = None
    if model.startswith('err'):
        if got != ('err', model.split()[1]):
            msg = 'model rejects with %s, implementation gives %s' % (model.split()[1], got[1] if got[0] == 'err' else 'a matrix')
    elif model.startswith('ok'):
        if got[0] != 'ok':
            msg = 'model builds a matrix, implementation raises %s' % got[1]
        else:
            want = parse_model_matrix(model.split()[1:])
            kk = tol_tf(c['k'], c['vals'])
            # last row and translation column are exact for every kind; rotate/lookat 3x3 block within kk ulp32
            ok = True
            for i in range(4):
                for j in range(4):
                    g, w = got[1][4 * i + j], want[4 * i + j]
                    if i < 3 and j < 3 and kk:
                        r = close([g], [w], kk)
                        if r is None:
                            ok = False
                        else:
                            stats[c['k']] = max(stats.get(c['k'], F(0)), r / kk)
                    elif g != w:
                        ok = False
            if not ok:
                msg = 'matrices differ: model %s, implementation %s' % ([float(x) for x in want], [float(x) for x in got[1]])
    else:
        msg = 'driver answered %r' % model
    if msg and sig not in reported:
        reported.add(sig)
        ctx.violation(sig, 'correspondence Pyc.Tf <-> collada.scene broke on %r: %s; the geometric oracle found no failing input on this '
                      'case (theorems of Pyc/Props/C13.lean no longer describe the code)' % (tf_line(c)[:200], msg),
                      dict(kind='correspondence', case=c, model=model), found_input=False)


def check_node(ctx, c, model, reported):
    answers, bad = run_node(c)
    nsaves = sum(1 for op in c['ops'] if op[0] == 'save')
    nedits = sum(1 for a in answers[1:] if a[1] is None and a[0].startswith('ok'))
    ctx.case(dict(c, lines=node_lines(c)), nontrivial=nedits > 0 and nsaves > 0 and answers[-1][0] != 'ok n=0')
    ctx.count('node:start:' + c['start'])
    ctx.count('node:save-route:' + c['save'])
    ctx.count('node:depth:%d' % c['depth'])
    ctx.count('node:' + ('integer-exact' if c['exact'] else 'float'))
    for op, a in zip(c['ops'], answers[1:]):
        ctx.count('op:' + op[0] + ('' if a[0].startswith('ok') else ':' + a[0].split()[0]))
    if bad:
        sig = bad[1] if bad[1].startswith('tf:') else 'node:%s' % bad[1]
        if sig not in reported:
            reported.add(sig)
            small = shrink_node(c, lambda cc: (lambda r: r[1] is not None and r[1][1] == bad[1])(run_node(cc)))
            b2 = run_node(small)[1]
            ctx.violation(sig, b2[2], dict(kind='oracle', case=small, lines=node_lines(small)))
        return
    if model is None:
        return
    ks = model_ks(c)
    for i, (line, a) in enumerate(zip(model, answers)):
        words = line.split()
        head = ' '.join(words[:2])
        opk = c['start'] if i == 0 else c['ops'][i - 1][0]
        sig = 'corr:node:%s' % opk
        msg = None
        if head != a[0]:
            msg = 'model answers %r, implementation %r' % (head, a[0])
        elif a[1] is not None:
            if len(words) != 18:
                msg = 'model gives no matrix: %r' % line
            else:
                want = unflat(parse_model_matrix(words[2:]))
                kk = ks[i] if i < len(ks) else []
                if len(kk) != len(a[2]):
                    msg = 'harness lost track of the list (%d vs %d transforms)' % (len(kk), len(a[2]))
                else:
                    _, bound, exact = product_bound(a[2], kk)
                    if not within(a[1], want, bound, exact and not any(kk)):
                        msg = 'Node.matrix differs: model %s, implementation %s' % (
                            [[float(x) for x in r] for r in want], [[float(x) for x in r] for r in a[1]])
        if msg:
            # failing-input search seeded from the diverging case: does one of its transforms break its own oracle?
            found = False
            for tc in case_specs(c):
                for aspect, what in oracle_tf(tc, real_tf(tc)):
                    found = True
                    tsig = 'tf:%s:%s' % (tc['k'], aspect)
                    if tsig not in reported:
                        reported.add(tsig)
                        ctx.violation(tsig, what, dict(kind='oracle', case=tc))
            if found:
                return
            if sig not in reported:
                reported.add(sig)
                ctx.violation(sig, 'correspondence Pyc.Tf.Node <-> collada.scene.Node broke at step %d (%r): %s; the product oracle found '
                              'no failing input on this case' % (i, node_lines(c)[i][:160], msg),
                              dict(kind='correspondence', case=c, lines=node_lines(c), model=model), found_input=False)
            return


def run(ctx):
    ctx.rule = ('(a) single transforms: kind in translate/scale/rotate/matrix/lookat x route in constructor/XML load x value mode in '
                'small integers / grid of exactly representable values / random float32 (axes: coordinate axes, rational and random unit '
                'vectors; angles: multiples of 30/45/90 degrees, random in [-360,360]; lookats non-degenerate with sin(front,up)>=0.3, up '
                'neither unit nor perpendicular), constructor argument style python/float32/float64, varied number formatting and whitespace '
                'in XML; plus a malformed stream of wrong value counts. Non-trivial = well-formed and some parameter not 0/1. '
                '(b) node histories: node constructed or loaded (transforms interleaved with <node>/<extra> children) at depth 0-2, 1-%d list '
                'edits (append/insert/set/pop/del/swap/reverse/clear/extend/assign, negative and out-of-range positions) and saves by '
                'node.save/root.save/doc.save/doc.write, always ending in a save; half of the cases use small-integer matrices only and are '
                'compared exactly. Non-trivial = at least one successful edit, a save, non-empty final list. Distinct = distinct case JSON.'
                % (12 if not ctx.thorough else 30))
    ntf = ctx.n(2600, 40000)
    nbad = ctx.n(300, 3000)
    nnode = ctx.n(900, 12000)
    maxops = 12 if not ctx.thorough else 30
    rng = ctx.rng
    cases = [gen_tf_case(rng) for _ in range(ntf)] + [gen_bad_case(rng) for _ in range(nbad)] + \
            [gen_node_case(rng, maxops) for _ in range(nnode)]
    lines = []
    for c in cases:
        lines.extend(lines_of(c))
    model = ctx.driver('C13', lines) if ctx.lean_ok else None
    pos = 0
    reported = set()
    stats = {}
    for c in cases:
        n = 1 if c['type'] == 'tf' else 1 + len(c['ops'])
        part = model[pos:pos + n] if model is not None else None
        if part is not None and any(p == 'bad-op' for p in part):
            sig = 'corr:protocol'
            if sig not in reported:
                reported.add(sig)
                ctx.violation(sig, 'driver rejected a generated line: %r' % [l for l, p in zip(lines_of(c), part) if p == 'bad-op'][:1],
                              dict(kind='correspondence', case=c), found_input=False)
            part = None
        if c['type'] == 'tf':
            check_tf(ctx, c, part[0] if part else None, reported, stats)
        else:
            check_node(ctx, c, part, reported)
        pos += n
    ctx.notes['worst_observed_fraction_of_float32_bound'] = dict((k, round(float(v), 3)) for k, v in stats.items())
    ctx.notes['float32_bounds'] = ('rotate 3x3 block: (4 + 2|angle in rad|) * 2^-23 * max(1,|entry|); lookat 3x3 block: 8 * 2^-23 * max(1,|entry|) '
                                   'with sin(front,up) >= 0.3; translation column, last row, translate/scale/matrix: exact; Node.matrix: exact when all '
                                   'entries are integers and the product of absolute values stays below 2^24, else 2 * [ 2(k+1) * 2^-23 * |M1|..|Mk| + '
                                   'sum_i |M1|..E_i..|Mk| ] with E_i the bound of transform i')
    ctx.assumptions.append('cos/sin (libm) and the two square roots of the lookat constructor are parameters of the model; float32 rounding is '
                           'assumed within the stated bounds; Python list semantics are modelled (Pyc/Basic/PyList.lean)')


def replay(ctx, rep):
    c = rep['case']
    if c['type'] == 'tf':
        bads = oracle_tf(c, real_tf(c))
        for _, what in bads:
            print('  ' + what)
        return bool(bads)
    _, bad = run_node(c)
    if bad:
        print('  ' + bad[2])
    return bad is not None
