"""C18 — generated normals are the normalised sum of incident face normals.

Correspondence: triangle meshes built through the public API (FloatSource / Geometry /
createTriangleSet; unbound, bound through TriangleSet.bind, bound through a scene graph, and
re-loaded from written XML bytes) vs Pyc.Normals (lean/drv/C18.lean, exact rational arithmetic):
  * the implicit normal of every Triangle of a set without normals        (`tri`, triNormal)
  * generateNormals: per-vertex accumulated sums, normal_index, array shape (`gen`, accumulate)
  * generateTexTangentsAndBinormals: per-corner tangent directions          (`tan`, tangentDirs)
Vertices are small integers, triangles are axis-aligned right triangles / lie in coordinate planes
/ lie in planes whose normal has rational length, so unit face normals are exact rationals; hubs of
fans sit in the same corner position of many triangles. float32 results are compared with the exact
rational directions by cross-multiplication in exact arithmetic under the stated bounds (BOUNDS).
Direct oracle on the implementation: independent fractions.Fraction recomputation.
"""
import io
import math
import warnings
from fractions import Fraction as Fr

PID = 'C18'
META = dict(
    level_text=('Proof: Pyc/Props/C18.lean proves for all inputs that the implicit triangle normal is a positive multiple of the '
                'right-hand cross product, orthogonal to both edges and of unit length (face_normal_right_hand, face_normal_unit); '
                'that the accumulation used by generateNormals gives every vertex the sum over ALL (triangle, corner) pairs that '
                'refer to it, for every multiplicity in every corner position, over any additive commutative monoid (scatter_add_sum, '
                'by induction over the triangle list); that the generated normal of v is normalize of that sum of unit face normals, '
                'one per vertex row and indexed by the vertex index (generate_spec, normals_indexed_like_vertices, generate_defined); '
                'that the Gram-Schmidt tangent is a unit vector orthogonal to a unit normal (tangent_orthogonal, tangent_unit_orthogonal, '
                'tangents_spec). Negative theorems exhibit the buffered `a[idx] += b` of the pinned tree (scatterAssign_ne_sum, '
                'accumulateAssign_fan_hub) and the tangent-parallel-to-normal degeneracy. The model is tied to collada/triangleset.py on '
                'every run by a differential check in exact rational arithmetic, and the property is evaluated directly on the real '
                'objects with a Fraction recomputation, which is what yields replays.'),
    level_note=('Trusted: Lean kernel; axioms propext/Quot.sound/Classical.choice only; the hand-written model Pyc/Model/Normals.lean and the '
                'mesh generator/comparison in props/c18.py. sqrt and float division are parameters of the model (PosScale/Unitises '
                'hypotheses on the normalisation); float32 results are compared under stated bounds. numpy fancy indexing, add.at, cross '
                'are modelled, not verified. A vertex whose accumulated tangent is parallel to its normal has no tangent: open finding.'),
    technique='Lean 4 proof by induction over the triangle list + exact-rational correspondence with collada.triangleset on generated meshes',
)
LEAN_MODULES = ['Pyc.Model.Normals']

BOUNDS = ('normal direction: |n x S|^2 <= 2^-41 (|S|^2 + k^2) |n|^2 and n.S > 0 (S exact sum of unit face normals, k incident corners); '
          'unit length: |n.n - 1| <= 2^-20; implicit triangle normal (edges are normalised before the cross product): angle to the exact '
          'right-hand normal and |n.e|/|e| for both edges <= 2^-20 / sin(angle between the edges); tangent: |t.t - 1| <= 2^-20, '
          '(t.n)^2 |G|^2 <= 2^-36 A (S.S)^2 and |t x G|^2 <= 2^-36 A (S.S)^2 |t|^2, t.G > 0 '
          '(G = (S.S)T - (S.T)S exact, A = k * sum of squared lengths of the incident s directions)')
EPS_LEN = Fr(1, 2 ** 20)
EPS_DIR2 = Fr(1, 2 ** 41)
EPS_TAN2 = Fr(1, 2 ** 36)

OBLIQUE = [(1, 2, 2), (2, 1, 2), (2, 2, 1), (2, 3, 6), (3, 6, 2), (6, 2, 3), (0, 3, 4), (4, 0, 3), (3, 4, 0), (1, 4, 8), (4, 4, 7)]


# ----------------------------------------------------------------------------- exact vector helpers

def sub(a, b):
    return (a[0] - b[0], a[1] - b[1], a[2] - b[2])


def add(a, b):
    return (a[0] + b[0], a[1] + b[1], a[2] + b[2])


def scal(k, a):
    return (k * a[0], k * a[1], k * a[2])


def dot(a, b):
    return a[0] * b[0] + a[1] * b[1] + a[2] * b[2]


def cross(a, b):
    return (a[1] * b[2] - a[2] * b[1], a[2] * b[0] - a[0] * b[2], a[0] * b[1] - a[1] * b[0])


def fsqrt(q):
    """(sqrt(q) as Fraction, exact?) — exact when q is a rational square, else correct to ~2^-80 relative"""
    q = Fr(q)
    a, b = math.isqrt(q.numerator), math.isqrt(q.denominator)
    if a * a == q.numerator and b * b == q.denominator:
        return Fr(a, b), True
    sh = 200
    return Fr(math.isqrt((q.numerator << sh) // q.denominator), 1 << (sh // 2)), False


def unit(v):
    l2 = dot(v, v)
    if l2 == 0:
        return v, True
    l, ex = fsqrt(l2)
    return (v[0] / l, v[1] / l, v[2] / l), ex


def fvec(row):
    return tuple(Fr(float(x)) for x in row)


def frs(q):
    q = Fr(q)
    return str(q.numerator) if q.denominator == 1 else '%d/%d' % (q.numerator, q.denominator)


def vstr(v):
    return ','.join(frs(x) for x in v)


def parse_vecs(s):
    return [tuple(Fr(x) for x in v.split(',')) for v in s.split(';')] if s else []


# ----------------------------------------------------------------------------- generator

def gen_mesh(rng, big=False):
    """triangle mesh on integer coordinates whose face normals have rational length (a few general
    triangles and degenerate ones as the malformed stream)"""
    verts, vid, tris, kinds = [], {}, [], []
    share = rng.random() < 0.85

    def V(p):
        p = tuple(p)
        if share and p in vid:
            return vid[p]
        verts.append(p)
        vid.setdefault(p, len(verts) - 1)
        return len(verts) - 1

    def rpt(r=3):
        return (rng.randint(-r, r), rng.randint(-r, r), rng.randint(-r, r))

    def axis_dir(exclude=None):
        while True:
            ax = rng.randrange(3)
            if ax != exclude:
                break
        l = rng.choice([1, 1, 2, 3]) * rng.choice([1, -1])
        d = [0, 0, 0]
        d[ax] = l
        return ax, tuple(d)

    def place(t, mode):
        a, b, c = t
        if mode == 'c1':
            return (c, a, b)
        if mode == 'c2':
            return (b, c, a)
        if mode == 'mixed':
            return rng.choice([(a, b, c), (c, a, b), (b, c, a)])
        return (a, b, c)

    nblocks = rng.randint(1, 6 if big else 3)
    for _ in range(nblocks):
        kind = rng.choice(['fan', 'fan', 'fan', 'fan', 'planarfan', 'right', 'planar', 'oblique', 'dup', 'general', 'degenerate'])
        if kind in ('dup',) and not tris:
            kind = 'fan'
        if kind in ('general', 'degenerate') and rng.random() < 0.6:
            kind = 'fan'
        kinds.append(kind)
        mode = rng.choice(['c0', 'c0', 'c0', 'c1', 'c2', 'mixed'])
        flip = rng.random() < 0.3
        if kind == 'fan':
            # hub + ring of points on the axes through the hub; consecutive ring points on different axes
            hub = rpt()
            h = V(hub)
            k = rng.randint(2, 12 if big else 7)
            ax, d = axis_dir()
            ring = [V(add(hub, d))]
            for _ in range(k):
                ax, d = axis_dir(exclude=ax)
                ring.append(V(add(hub, d)))
            for i in range(k):
                t = (h, ring[i], ring[i + 1])
                if flip:
                    t = (h, ring[i + 1], ring[i])
                tris.append(place(t, mode))
        elif kind == 'planarfan':
            ax = rng.randrange(3)
            hub = rpt()
            h = V(hub)
            k = rng.randint(2, 6)
            pts = []
            while len(pts) < k + 1:
                p = list(rpt(4))
                p[ax] = hub[ax]
                pts.append(V(p))
            for i in range(k):
                a, b = verts[pts[i]], verts[pts[i + 1]]
                if cross(sub(a, hub), sub(b, hub)) != (0, 0, 0):
                    tris.append(place((h, pts[i], pts[i + 1]), mode))
        elif kind == 'right':
            p = rpt()
            ax, d1 = axis_dir()
            _, d2 = axis_dir(exclude=ax)
            tris.append(place((V(p), V(add(p, d1)), V(add(p, d2))), mode))
        elif kind == 'planar':
            ax = rng.randrange(3)
            c = rng.randint(-3, 3)
            for _ in range(20):
                ps = [list(rpt(4)) for _ in range(3)]
                for q in ps:
                    q[ax] = c
                if cross(sub(ps[1], ps[0]), sub(ps[2], ps[0])) != (0, 0, 0):
                    tris.append(place(tuple(V(q) for q in ps), mode))
                    break
        elif kind == 'oblique':
            n = rng.choice(OBLIQUE)
            n = tuple(x * rng.choice([1, -1]) for x in n)
            u = (n[1], -n[0], 0) if (n[0], n[1]) != (0, 0) else (0, n[2], -n[1])
            g = math.gcd(math.gcd(abs(u[0]), abs(u[1])), abs(u[2]))
            u = tuple(x // g for x in u)
            w = cross(n, u)
            g = math.gcd(math.gcd(abs(w[0]), abs(w[1])), abs(w[2]))
            w = tuple(x // g for x in w)
            p = rpt(2)
            for _ in range(20):
                a, b, c, d = [rng.randint(-2, 2) for _ in range(4)]
                if a * d - b * c != 0:
                    q1 = add(p, add(scal(a, u), scal(b, w)))
                    q2 = add(p, add(scal(c, u), scal(d, w)))
                    tris.append(place((V(p), V(q1), V(q2)), mode))
                    break
        elif kind == 'general':
            for _ in range(20):
                ps = [rpt() for _ in range(3)]
                if cross(sub(ps[1], ps[0]), sub(ps[2], ps[0])) != (0, 0, 0):
                    tris.append(place(tuple(V(q) for q in ps), mode))
                    break
        elif kind == 'degenerate':
            a, b = V(rpt()), V(rpt())
            tris.append(place((a, a, b), mode))
        elif kind == 'dup':
            tris.append(place(rng.choice(tris), rng.choice(['c0', 'c1', 'c2'])))
    for _ in range(rng.choice([0, 0, 0, 1, 2])):
        verts.append(rpt())      # unused vertices
    if not tris:
        tris.append((V((0, 0, 0)), V((1, 0, 0)), V((0, 1, 0))))
    return verts, tris, kinds


def gen_matrix(rng):
    perm = [0, 1, 2]
    rng.shuffle(perm)
    sc = [rng.choice([1, 1, 2, 3, -1, -2]) for _ in range(3)]
    if rng.random() < 0.4:
        s = rng.choice([1, 2, -1])
        sc = [s, s, s]
    m = [[0] * 4 for _ in range(4)]
    for i in range(3):
        m[i][perm[i]] = sc[i]
        m[i][3] = rng.randint(-3, 3)
    m[3][3] = 1
    return m


def gen_case(rng, big=False):
    verts, tris, kinds = gen_mesh(rng, big)
    case = dict(verts=[list(v) for v in verts], tris=[list(t) for t in tris], kinds=kinds)
    case['mode'] = rng.choice(['unbound', 'unbound', 'bind', 'scene', 'loaded', 'loaded-scene'])
    if case['mode'] != 'unbound' and case['mode'] != 'loaded':
        case['matrix'] = gen_matrix(rng)
    # layout of the index array: offsets of VERTEX / NORMAL / TEXCOORD
    want_tan = rng.random() < 0.6 and case['mode'] in ('unbound', 'loaded')
    has_normals = rng.random() < 0.35
    offs = ['VERTEX']
    if has_normals:
        offs.append('NORMAL')
    if want_tan:
        offs.append('TEXCOORD')
    elif rng.random() < 0.2:
        offs.append('PAD')
    rng.shuffle(offs)
    case['layout'] = offs
    nt = len(tris)
    if has_normals:
        # supplied normals: exact axis-aligned unit vectors with their own index
        pool = [[1, 0, 0], [0, 1, 0], [0, 0, 1], [-1, 0, 0], [0, -1, 0], [0, 0, -1]]
        rng.shuffle(pool)
        pool = pool[:rng.randint(1, 6)]
        case['normals'] = pool
        case['ntris'] = [[rng.randrange(len(pool)) for _ in range(3)] for _ in range(nt)]
    if want_tan:
        nuv = rng.randint(3, 9)
        uv = [[rng.randint(-4, 4), rng.randint(-4, 4)] for _ in range(nuv)]
        uvtris = []
        zero_ok = rng.random() < 0.04
        for _ in range(nt):
            for _ in range(50):
                t = [rng.randrange(nuv) for _ in range(3)]
                a, b, c = uv[t[0]], uv[t[1]], uv[t[2]]
                den = (b[0] - a[0]) * (c[1] - b[1]) - (c[0] - b[0]) * (b[1] - a[1])
                if den != 0 or zero_ok:
                    break
            else:
                uv.extend([[0, 0], [1, 0], [0, 1]])
                t = [len(uv) - 3, len(uv) - 2, len(uv) - 1]
            uvtris.append(t)
        # texture charts come in every size: an atlas island may be a thousandth of the unit square (exact powers of two)
        k = rng.choice([0, 0, 0, 3, 6, 9, 11, 13])
        case['uv'] = [[u * 2.0 ** -k, v * 2.0 ** -k] for u, v in uv] if k else uv
        case['uvtris'] = uvtris
        # tangents need normals: supplied ones, or generate first
        case['tan'] = True
    if rng.random() < 0.03:
        t = rng.randrange(nt)
        case['tris'][t][rng.randrange(3)] = len(verts) + rng.randint(0, 2)
        case['oob'] = True
    return case


# ----------------------------------------------------------------------------- building the real objects

def build(case):
    """returns the TriangleSet or BoundTriangleSet under test; raises what the library raises"""
    import numpy
    import collada
    from collada import source, geometry, scene, material
    doc = collada.Collada()
    srcs = [source.FloatSource('pos', numpy.array(case['verts'], dtype=numpy.float32).reshape(-1), ('X', 'Y', 'Z'))]
    il = source.InputList()
    nt = len(case['tris'])
    cols = []
    for off, sem in enumerate(case['layout']):
        if sem == 'VERTEX':
            il.addInput(off, 'VERTEX', '#pos')
            cols.append(case['tris'])
        elif sem == 'NORMAL':
            srcs.append(source.FloatSource('nrm', numpy.array(case['normals'], dtype=numpy.float32).reshape(-1), ('X', 'Y', 'Z')))
            il.addInput(off, 'NORMAL', '#nrm')
            cols.append(case['ntris'])
        elif sem == 'TEXCOORD':
            srcs.append(source.FloatSource('uv', numpy.array(case['uv'], dtype=numpy.float32).reshape(-1), ('S', 'T')))
            il.addInput(off, 'TEXCOORD', '#uv', '0')
            cols.append(case['uvtris'])
        else:
            # an input the generators do not look at, sharing nothing with the others
            srcs.append(source.FloatSource('pad', numpy.array([0, 0, 0, 1, 1, 1], dtype=numpy.float32), ('X', 'Y', 'Z')))
            il.addInput(off, 'TEXTANGENT', '#pad', '0')
            cols.append([[(i + k) % 2 for k in range(3)] for i in range(nt)])
    index = numpy.array([[[c[t][k] for c in cols] for k in range(3)] for t in range(nt)], dtype=numpy.int32).reshape(-1)
    geom = geometry.Geometry(doc, 'g', 'g', srcs)
    ts = geom.createTriangleSet(index, il, 'mat')
    geom.primitives.append(ts)
    doc.geometries.append(geom)
    mode = case['mode']
    if mode == 'unbound':
        return ts
    if mode == 'bind':
        return ts.bind(numpy.array(case['matrix'], dtype=numpy.float32), {})
    if mode in ('scene', 'loaded-scene'):
        eff = material.Effect('e', [], 'phong', diffuse=(1, 0, 0))
        mat = material.Material('m', 'm', eff)
        doc.effects.append(eff)
        doc.materials.append(mat)
        gn = scene.GeometryNode(geom, [scene.MaterialNode('mat', mat, inputs=[])])
        node = scene.Node('n', children=[gn], transforms=[scene.MatrixTransform(numpy.array(case['matrix'], dtype=numpy.float32).reshape(-1))])
        sc = scene.Scene('s', [node])
        doc.scenes.append(sc)
        doc.scene = sc
    if mode in ('loaded', 'loaded-scene'):
        buf = io.BytesIO()
        doc.write(buf)
        doc = collada.Collada(io.BytesIO(buf.getvalue()))
        if mode == 'loaded':
            return doc.geometries[0].primitives[0]
    bg = list(doc.scene.objects('geometry'))[0]
    return list(bg.primitives())[0]


def scaled_tri_check(seed):
    """the generators away from unit scale and away from float32 arrays: integer meshes times 2^k (exact in float32); implicit triangle
    normals at the ends of the float32 range, generateNormals at small and large modelling scales; unbound, bound with a float32 and with
    a float64 matrix (numpy's default dtype). Returns None or (signature, text)"""
    import random
    import numpy
    import collada
    from collada import source, geometry
    rng = random.Random('c18s/%s' % seed)
    verts, tris, kinds = gen_mesh(rng)
    gen = rng.random() < 0.5 and 'degenerate' not in kinds
    if gen:
        k = rng.choice([rng.randint(-22, -12), rng.randint(8, 18), 0, 0])
    else:
        k = rng.choice([rng.randint(-55, -38), rng.randint(32, 45), rng.randint(-30, 30)])
    arr = numpy.array(verts, dtype=numpy.float32) * numpy.float32(2.0 ** k)
    dt = 'float32'
    if not gen and rng.random() < 0.35:
        # a source keeps the array it is given: whole-number coordinates arrive as integer arrays, numpy's default floats as float64
        # (integer arrays only where the cross products and their squares stay far inside the integer type: overflow there is numpy's)
        dt = rng.choice(['float64', 'int64', 'int32'])
        if dt != 'float64':
            k = rng.randint(0, 6) if dt == 'int64' else 0
        arr = (numpy.array(verts, dtype=numpy.float64) * 2.0 ** k).astype(dt)
    doc = collada.Collada()
    geom = geometry.Geometry(doc, 'g', 'g', [source.FloatSource('pos', arr.reshape(-1), ('X', 'Y', 'Z'))])
    il = source.InputList()
    il.addInput(0, 'VERTEX', '#pos')
    ts = geom.createTriangleSet(numpy.array(tris, dtype=numpy.int32).reshape(-1), il, 'mat')
    how = rng.choice(['unbound', 'unbound', 'bind32', 'bind64', 'bind64'])
    if how == 'unbound':
        obj = ts
    else:
        obj = ts.bind(numpy.identity(4, dtype=numpy.float32 if how == 'bind32' else numpy.float64), {})
    V, T = extract(obj)
    where = 'coordinates scaled by 2^%d, %s%s' % (k, how, '' if dt == 'float32' else ', position array of type ' + dt)
    if gen:
        with warnings.catch_warnings():
            warnings.simplefilter('ignore')
            bad, _ = check_gen(obj, V, T)
            if bad:
                return ('gennormals:%s:scaled' % bad[0], '%s: %s' % (where, bad[1]))
            # "recomputing": the normals are computed from the vertices as they are NOW — after they were moved, and for a
            # set bound (under a non-uniform scale) from a set whose normals had been generated before
            step = rng.choice(['move', 'bind', 'again'])
            if step == 'move':
                obj.vertex[:, 1] *= 2
                obj.vertex[:, 2] *= 4
            elif step == 'bind':
                m = numpy.identity(4, dtype=numpy.float32)
                m[1, 1], m[2, 2] = 2, 4
                obj = obj.bind(m, {}) if how == 'unbound' else obj
            V2, T2 = extract(obj)
            bad, _ = check_gen(obj, V2, T2)
        if bad:
            return ('gennormals:%s:regenerated' % bad[0], '%s, generateNormals() a second time after %s: %s'
                    % (where, {'move': 'the vertices were moved (y*2, z*4)', 'bind': 'binding under the scale (1,2,4)', 'again': 'nothing changed'}[step], bad[1]))
        return None
    bad, _ = check_tri_normals(obj, V, T)
    if bad:
        return ('%s:scaled' % bad[0], '%s: %s' % (where, bad[1]))
    return None


def extract(obj):
    """the inputs of the generators as the object under test holds them (exact)"""
    V = [fvec(r) for r in obj.vertex]
    tris = [tuple(int(x) for x in r) for r in obj.vertex_index]
    return V, tris


# ----------------------------------------------------------------------------- exact recomputation (direct oracle)

def exact_faces(V, tris):
    out = []
    for a, b, c in tris:
        n, ex = unit(cross(sub(V[b], V[a]), sub(V[c], V[a])))
        out.append((n, ex))
    return out


def exact_sums(nv, tris, contribs):
    S = [(Fr(0), Fr(0), Fr(0))] * nv
    K = [0] * nv
    for t, n in zip(tris, contribs):
        for v in t:
            S[v] = add(S[v], n)
            K[v] += 1
    return S, K


def assign_sums(nv, tris, contribs):
    """what three buffered `acc[idx[:,k]] += n` statements leave (numpy: gather from the old array,
    add, assign back — the last triangle wins within a column); mirrors Pyc.Normals.accumulateAssign"""
    acc = [(Fr(0), Fr(0), Fr(0))] * nv
    for k in range(3):
        old = list(acc)
        for t, n in zip(tris, contribs):
            acc[t[k]] = add(old[t[k]], n)
    return acc


def dir_ok(n, S, k):
    """float vector n against exact direction S (k contributions of unit size)"""
    c = cross(n, S)
    return dot(n, S) > 0 and dot(c, c) <= EPS_DIR2 * (dot(S, S) + k * k) * dot(n, n)


def par_ok(n, d, e1, e2):
    """float implicit normal n parallel to and oriented like the exact direction d = e1 x e2 (up to a
    positive factor); the code normalises the edges BEFORE the cross product, so the direction error
    grows with 1/sin(angle between the edges): bound 2^-20 / sin"""
    c = cross(n, d)
    x = cross(e1, e2)
    return dot(n, d) > 0 and dot(c, c) * dot(x, x) <= EPS_DIR2 * 2 * dot(d, d) * dot(n, n) * dot(e1, e1) * dot(e2, e2)


def len_ok(n):
    return abs(dot(n, n) - 1) <= EPS_LEN


def check_tri_normals(obj, V, tris, model=None):
    """implicit normals of Triangle objects of a set WITHOUT normals. Returns (failure or None, divergence or None)"""
    for i, (a, b, c) in enumerate(tris):
        raw = cross(sub(V[b], V[a]), sub(V[c], V[a]))
        if raw == (0, 0, 0):
            continue
        with warnings.catch_warnings():
            warnings.simplefilter('ignore')
            tri = obj[i]
        if any(x != x for r in tri.normals for x in map(float, r)):
            return ('trinormal', 'triangle %d: implicit normal is nan' % i), None
        rows = [fvec(r) for r in tri.normals]
        if len(rows) != 3 or rows[0] != rows[1] or rows[1] != rows[2]:
            return ('trinormal', 'triangle %d: implicit normals are not three equal rows: %s' % (i, tri.normals.tolist())), None
        n = rows[0]
        if any(x != x for x in map(float, n)):
            return ('trinormal', 'triangle %d: implicit normal is nan' % i), None
        e1, e2 = sub(V[b], V[a]), sub(V[c], V[a])
        bad = None
        if not len_ok(n):
            bad = 'is not a unit vector'
        elif not par_ok(n, raw, e1, e2):
            bad = 'is not the right-hand normal of its vertices'
        elif any(dot(n, e) ** 2 * dot(raw, raw) > EPS_DIR2 * 2 * dot(e, e) * dot(e1, e1) * dot(e2, e2) for e in (e1, e2)):
            bad = 'is not orthogonal to the edges'
        if bad:
            return ('trinormal', 'triangle %d with vertices %s: implicit normal %s %s (exact direction %s)'
                    % (i, [list(map(float, V[x])) for x in (a, b, c)], list(map(float, n)), bad, list(map(str, raw)))), None
        if model is not None:
            ans = model[i]
            kind, vec = ans.split(' ')
            m = tuple(Fr(x) for x in vec.split(','))
            if not par_ok(n, m, e1, e2):
                return None, 'triangle %d: model triNormal %s, implementation %s' % (i, ans, list(map(float, n)))
    return None, None


def check_gen(obj, V, tris):
    """generateNormals on the real object against the Fraction recomputation.
    Returns (signature-suffix, text) or None; also returns the observed normals"""
    import numpy
    nv = len(V)
    obj.generateNormals()
    N = obj.normal
    NI = obj.normal_index
    if N is None or tuple(N.shape) != (nv, 3):
        return ('shape', 'normal array has shape %s for %d vertices' % (None if N is None else N.shape, nv)), None
    if NI is None or not numpy.array_equal(numpy.asarray(NI), numpy.asarray(obj.vertex_index)):
        return ('index', 'normal_index differs from vertex_index after generateNormals'), None
    faces = exact_faces(V, tris)
    S, K = exact_sums(nv, tris, [f[0] for f in faces])
    rows = [fvec(r) for r in N]
    for v in range(nv):
        if K[v] == 0 or S[v] == (0, 0, 0):
            continue
        n = rows[v]
        if any(x != x for x in map(float, n)):
            return ('nan', 'vertex %d: generated normal is nan' % v), rows
        if not dir_ok(n, S[v], K[v]) or not len_ok(n):
            exp, _ = unit(S[v])
            return ('wrong-normal', 'vertex %d (in %d corners, corner positions %s): generated normal %s, normalised sum of the incident unit face normals is %s'
                    % (v, K[v], sorted(set(k for t in tris for k in range(3) if t[k] == v)), [round(float(x), 6) for x in n],
                       [round(float(x), 6) for x in exp])), rows
    # the Triangle objects see the generated normals through the vertex index
    for i in range(len(tris)):
        tri = obj[i]
        if not numpy.array_equal(tri.normals, N[numpy.asarray(obj.vertex_index)[i]]):
            return ('index', 'triangle %d: Triangle.normals is not normal[vertex_index[%d]]' % (i, i)), rows
    # recomputing again changes nothing
    obj.generateNormals()
    if not numpy.array_equal(obj.normal, N):
        return ('recompute', 'a second generateNormals() gives different normals'), rows
    return None, rows


def tangent_inputs(obj, case, V, tris, gen_first):
    """exact per-corner normal directions S (any positive multiple of the unit normal), or None"""
    if gen_first:
        faces = exact_faces(V, tris)
        S, _ = exact_sums(len(V), tris, [f[0] for f in faces])
        return S, [tuple(t) for t in tris]
    N = [fvec(r) for r in obj.normal]
    return N, [tuple(int(x) for x in r) for r in obj.normal_index]


def exact_sdirs(V, tris, UV, uvtris):
    out = []
    for (a, b, c), (p, q, r) in zip(tris, uvtris):
        e1, e2 = sub(V[b], V[a]), sub(V[c], V[b])
        s1, s2 = UV[q][0] - UV[p][0], UV[r][0] - UV[q][0]
        t1, t2 = UV[q][1] - UV[p][1], UV[r][1] - UV[q][1]
        den = s1 * t2 - s2 * t1
        if den == 0:
            return None
        out.append(scal(Fr(1) / den, sub(scal(t2, e1), scal(t1, e2))))
    return out


def check_tan(obj, V, tris, UV, uvtris, Ndir, ntris, model_dirs=None, degenerate=None):
    """generateTexTangentsAndBinormals on the real object. Returns (failure, divergence);
    a corner without tangent direction (residual exactly zero) is appended to `degenerate`"""
    import numpy
    if degenerate is None:
        degenerate = []
    sd = exact_sdirs(V, tris, UV, uvtris)
    if sd is None:
        return None, None
    with warnings.catch_warnings():
        warnings.simplefilter('ignore')
        obj.generateTexTangentsAndBinormals()
    tset, tidx = obj.textangentset, obj.textangent_indexset
    nt = len(tris)
    if len(tset) != 1 or tuple(tset[0].shape) != (3 * nt, 3):
        return ('tan-shape', 'textangentset has shape %s for %d triangles' % ([t.shape for t in tset], nt)), None
    if len(tidx) != 1 or not numpy.array_equal(numpy.asarray(tidx[0]), numpy.arange(3 * nt).reshape(nt, 3)):
        return ('tan-index', 'textangent_indexset is not one tangent per corner'), None
    T, K = exact_sums(len(V), tris, sd)
    A = [Fr(0)] * len(V)
    for t, s in zip(tris, sd):
        for v in t:
            A[v] += dot(s, s)
    rows = [fvec(r) for r in tset[0]]
    nrm = obj.normal
    nidx = numpy.asarray(obj.normal_index)
    for i in range(nt):
        for k in range(3):
            v = tris[i][k]
            S = Ndir[ntris[i][k]]
            if S == (0, 0, 0):
                continue        # no normal at this corner (degenerate triangles / face normals cancel)
            G = sub(scal(dot(S, S), T[v]), scal(dot(S, T[v]), S))
            tan = rows[3 * i + k]
            n = fvec(nrm[nidx[i][k]])
            bound = EPS_TAN2 * K[v] * A[v] * dot(S, S) ** 2
            where = 'corner %d of triangle %d (vertex %d, in %d corners)' % (k, i, v, K[v])
            # (parallel up to the rounding of the inputs: the residual is the difference of two equal numbers of seven digits —
            #  after a trip through the writer's '%.7g' a direction that was exactly parallel no longer is, by parts in 10^7)
            near = dot(G, G) * 2 ** 24 <= dot(S, S) ** 2 * dot(T[v], T[v])
            if G == (0, 0, 0) or near:
                # accumulated tangent parallel to the normal: no tangent exists
                if any(x != x for x in map(float, tan)) or not len_ok(tan) or dot(tan, n) ** 2 > Fr(1, 2 ** 20):
                    degenerate.append(('gentangents:tangent-parallel-to-normal', '%s: accumulated s direction %s is parallel to the normal %s; generated tangent %s is not a unit vector orthogonal to the normal'
                            % (where, list(map(str, T[v])), [round(float(x), 6) for x in n], [round(float(x), 6) for x in tan])))
                continue
            if any(x != x for x in map(float, tan)):
                return ('tan-nan', '%s: generated tangent is nan' % where), None
            if not len_ok(tan):
                return ('tan-unit', '%s: generated tangent %s is not a unit vector' % (where, list(map(float, tan)))), None
            if dot(tan, n) ** 2 * dot(G, G) > bound:
                return ('tan-orth', '%s: generated tangent %s is not orthogonal to the normal %s (dot %g)'
                        % (where, list(map(float, tan)), list(map(float, n)), float(dot(tan, n)))), None
            if model_dirs is not None:
                M = model_dirs[3 * i + k]
                c = cross(tan, M)
                if not (dot(tan, M) > 0 and dot(c, c) <= EPS_TAN2 * K[v] * A[v] * dot(S, S) ** 2 * dot(tan, tan)):
                    mu, _ = unit(M)
                    return None, '%s: tangent %s, model direction (Gram-Schmidt of the SUM of incident s directions) %s' % (
                        where, [round(float(x), 6) for x in tan], [round(float(x), 6) for x in mu])
    return None, None


# ----------------------------------------------------------------------------- one case, end to end

class Prepared(object):
    pass


def prepare(case):
    """build the real objects, read the inputs of the generators off them, emit the driver lines"""
    from collada.common import DaeError
    p = Prepared()
    p.case = case
    p.lines = []
    p.obj = None
    p.rejected = None
    try:
        with warnings.catch_warnings():
            warnings.simplefilter('ignore')
            p.obj = build(case)
    except DaeError as e:
        p.rejected = type(e).__name__
    nv = len(case['verts'])
    if p.obj is None:
        # the model sees the case as generated
        p.V = [tuple(Fr(x) for x in v) for v in case['verts']]
        p.tris = [tuple(t) for t in case['tris']]
    else:
        p.V, p.tris = extract(p.obj)
    p.gen_line = len(p.lines)
    p.lines.append('gen %d %d %s %s' % (len(p.V), len(p.tris), ' '.join(frs(x) for v in p.V for x in v),
                                       ' '.join(str(x) for t in p.tris for x in t)))
    p.tri_lines = None
    if p.obj is not None and p.obj.normal is None:
        p.tri_lines = len(p.lines)
        for a, b, c in p.tris:
            p.lines.append('tri ' + ' '.join(frs(x) for v in (p.V[a], p.V[b], p.V[c]) for x in v))
    p.tan_line = None
    if p.obj is not None and case.get('tan') and hasattr(p.obj, 'generateTexTangentsAndBinormals'):
        p.gen_first = p.obj.normal is None or case.get('regen', False)
        p.UV = [tuple(Fr(float(x)) for x in r) for r in p.obj.texcoordset[0]]
        p.uvtris = [tuple(int(x) for x in r) for r in p.obj.texcoord_indexset[0]]
        p.Ndir, p.ntris = tangent_inputs(p.obj, case, p.V, p.tris, p.gen_first)
        p.tan_line = len(p.lines)
        p.lines.append('tan %d %d %d %d %s %s %s %s %s %s' % (
            len(p.V), len(p.tris), len(p.UV), len(p.Ndir),
            ' '.join(frs(x) for v in p.V for x in v), ' '.join(str(x) for t in p.tris for x in t),
            ' '.join(frs(x) for v in p.UV for x in v), ' '.join(str(x) for t in p.uvtris for x in t),
            ' '.join(frs(x) for v in p.Ndir for x in v), ' '.join(str(x) for t in p.ntris for x in t)))
    return p


def evaluate(p, model=None):
    """run the generators on the real objects. Returns (failure, divergence, facts):
    failure = (signature, text) from the direct oracle; divergence = text where model and
    implementation differ"""
    facts = dict(hub=0, zero=0, irr=False)
    case = p.case
    oob = any(x >= len(p.V) for t in p.tris for x in t)
    if p.obj is None:
        if model is not None and model[p.gen_line] != 'oob':
            return None, 'constructor rejected the set (%s) but the model accepts it: %s' % (p.rejected, model[p.gen_line][:80]), facts
        if not oob:
            return ('construct', 'a valid triangle set was rejected with %s' % p.rejected), None, facts
        return None, None, facts
    if oob:
        return None, 'constructor accepted a vertex index beyond the vertex array', facts
    V, tris = p.V, p.tris
    nv = len(V)
    div = None
    cls = type(p.obj).__name__
    # 1. implicit triangle normals
    if p.tri_lines is not None:
        m = model[p.tri_lines:p.tri_lines + len(tris)] if model is not None else None
        bad, d = check_tri_normals(p.obj, V, tris, m)
        if bad:
            return ('%s:%s' % (bad[0], cls), bad[1]), None, facts
        div = div or d
    # 2. tangents with the supplied normals (before they are regenerated)
    if p.tan_line is not None and not p.gen_first:
        bad, d = run_tan(p, model, facts)
        if bad:
            return bad, None, facts
        div = div or d
    # 3. generateNormals
    faces = exact_faces(V, tris)
    S, K = exact_sums(nv, tris, [f[0] for f in faces])
    corner_mult = {}
    for t in tris:
        for k in range(3):
            corner_mult[(t[k], k)] = corner_mult.get((t[k], k), 0) + 1
    facts['hub'] = max(corner_mult.values())
    facts['zero'] = sum(1 for v in range(nv) if K[v] and S[v] == (0, 0, 0))
    facts['irr'] = any(not f[1] for f in faces)
    facts['distinct_dirs'] = len(set(S[v] for v in range(nv) if K[v]))
    bad, rows = check_gen(p.obj, V, tris)
    if bad and bad[0] == 'wrong-normal' and rows is not None:
        # does the implementation behave like the buffered assignment of the pinned tree?
        B = assign_sums(nv, tris, [f[0] for f in faces])
        if all(K[v] == 0 or B[v] == (0, 0, 0) or (dir_ok(rows[v], B[v], K[v]) and len_ok(rows[v])) for v in range(nv)):
            bad = ('repeated-index-dropped', bad[1] + ' — the result is what the buffered `norms[idx] += n` gives (Pyc.Normals.scatterAssign): '
                   'one contribution per vertex and corner position')
    if model is not None:
        ans = model[p.gen_line]
        if not ans.startswith('ok '):
            return bad and ('gennormals:%s:%s' % (cls, bad[0]), bad[1]), 'model answers %r for an accepted set' % ans, facts
        parts = dict(x.split('=', 1) for x in ans[3:].split(' '))
        irr = '!' in parts['f']
        if not irr:
            msum = parse_vecs(parts['s'])
            if msum != S:
                return bad and ('gennormals:%s:%s' % (cls, bad[0]), bad[1]), 'model sums %s differ from the Fraction recomputation %s' % (parts['s'], ';'.join(vstr(s) for s in S)), facts
            if parse_vecs(parts['b']) != assign_sums(nv, tris, [f[0] for f in faces]):
                div = div or 'model accumulateAssign differs from the Python rendering of the buffered +='
    if bad:
        return ('gennormals:%s:%s' % (cls, bad[0]), bad[1]), None, facts
    # 4. tangents on generated normals
    if p.tan_line is not None and p.gen_first:
        bad, d = run_tan(p, model, facts)
        if bad:
            return bad, None, facts
        div = div or d
    return None, div, facts


def run_tan(p, model, facts):
    mdirs = None
    d0 = None
    sd = exact_sdirs(p.V, p.tris, p.UV, p.uvtris)
    if model is not None:
        ans = model[p.tan_line]
        if ans == 'undef':
            if sd is not None:
                d0 = 'model has no tangents for a set with non-zero UV areas'
        elif ans.startswith('ok '):
            parts = dict(x.split('=', 1) for x in ans[3:].split(' '))
            mdirs = parse_vecs(parts['d'])
            if sd is None:
                d0 = 'model computes tangents although a UV area is zero'
            else:
                T, _ = exact_sums(len(p.V), p.tris, sd)
                if parse_vecs(parts['t']) != T:
                    d0 = 'model tangent sums differ from the Fraction recomputation'
        else:
            d0 = 'model answers %r' % ans
    if sd is None:
        return None, d0
    if p.gen_first and p.obj.normal is None:
        p.obj.generateNormals()
    bad, d = check_tan(p.obj, p.V, p.tris, p.UV, p.uvtris, p.Ndir, p.ntris, mdirs, facts.setdefault('degenerate', []))
    if bad:
        return ('gentangents:%s' % bad[0], bad[1]), None
    return None, d0 or d


def run_case(case, model_lines=None):
    p = prepare(case)
    return evaluate(p, model_lines)


def fails(case):
    try:
        bad, _, facts = run_case(case)
        return bad or (facts.get('degenerate') or [None])[0]
    except Exception as e:      # the generators must not raise on a valid set
        return ('raised:%s' % type(e).__name__, 'generator raised %s: %s' % (type(e).__name__, e))


def shrink(case, sig):
    """drop triangles, then unused vertices, while the same signature keeps failing"""
    def still(c):
        f = fails(c)
        return f is not None and f[0] == sig

    def without_tri(c, i):
        d = dict(c)
        for key in ('tris', 'ntris', 'uvtris'):
            if key in c:
                d[key] = c[key][:i] + c[key][i + 1:]
        return d
    changed = True
    while changed and len(case['tris']) > 1:
        changed = False
        for i in range(len(case['tris']) - 1, -1, -1):
            if len(case['tris']) <= 1:
                break
            cand = without_tri(case, i)
            if still(cand):
                case = cand
                changed = True
    used = sorted(set(x for t in case['tris'] for x in t))
    if len(used) < len(case['verts']) and all(x < len(case['verts']) for x in used):
        ren = dict((v, i) for i, v in enumerate(used))
        cand = dict(case)
        cand['verts'] = [case['verts'][v] for v in used]
        cand['tris'] = [[ren[x] for x in t] for t in case['tris']]
        if still(cand):
            case = cand
    for simpler in ('unbound',):
        if case['mode'] not in ('unbound', 'bind', 'scene'):
            cand = dict(case)
            cand['mode'] = 'scene' if 'scene' in case['mode'] else 'unbound'
            if still(cand):
                case = cand
    return case


CORPUS = [
    # R17: three-triangle fan, hub always in corner 0
    dict(verts=[[0, 0, 0], [1, 0, 0], [0, 1, 0], [0, 0, 1]], tris=[[0, 1, 2], [0, 2, 3], [0, 3, 1]], kinds=['corpus'],
         mode='unbound', layout=['VERTEX']),
    dict(verts=[[0, 0, 0], [1, 0, 0], [0, 1, 0], [0, 0, 1]], tris=[[0, 1, 2], [0, 2, 3], [0, 3, 1]], kinds=['corpus'],
         mode='bind', matrix=[[0, 2, 0, 1], [1, 0, 0, 2], [0, 0, -3, 3], [0, 0, 0, 1]], layout=['VERTEX']),
    dict(verts=[[0, 0, 0], [1, 0, 0], [0, 1, 0], [0, 0, 1]], tris=[[1, 2, 0], [2, 3, 0], [3, 1, 0]], kinds=['corpus'],
         mode='loaded-scene', matrix=[[1, 0, 0, 0], [0, 1, 0, 0], [0, 0, 1, 0], [0, 0, 0, 1]], layout=['PAD', 'VERTEX']),
    # tangents: hub of a fan in a plane, generated normals
    dict(verts=[[0, 0, 0], [2, 0, 0], [0, 2, 0], [-2, 0, 0], [0, 0, 1]], tris=[[0, 1, 2], [0, 2, 3], [0, 4, 1]], kinds=['corpus'],
         mode='unbound', layout=['VERTEX', 'TEXCOORD'], uv=[[0, 0], [1, 0], [0, 1], [-1, 0], [1, 1]],
         uvtris=[[0, 1, 2], [0, 2, 3], [0, 4, 1]], tan=True),
]


def run(ctx):
    ctx.rule = ('integer-coordinate meshes built from blocks: fans around a hub whose ring points lie on the axes through the hub '
                '(consecutive ones on different axes: axis-aligned right triangles, unit normals exact in float32; hub in the same '
                'corner position 0/1/2 of 2..12 triangles, or mixed), planar fans, single right / coordinate-plane / rational-oblique-plane '
                'triangles, duplicated triangles, a few general and degenerate triangles, unused vertices, shared or unshared vertices; '
                'VERTEX at any offset of a 1-3 input index, with or without supplied normals; unbound, TriangleSet.bind, bound through a '
                'scene with an integer signed-permutation/scale/translation matrix, re-loaded from written XML; texcoords with non-zero '
                '(rarely zero) UV area; 3% out-of-range indices. Non-trivial = some vertex occurs in one corner position of at least two '
                'triangles and at least two distinct accumulated directions occur; distinct = distinct case description. ' + BOUNDS)
    ncases = ctx.n(2500, 40000)
    cases = [dict(c) for c in CORPUS] + [gen_case(ctx.rng, big=(i % 7 == 0)) for i in range(ncases)]
    prepared = [prepare(c) for c in cases]
    lines = []
    for p in prepared:
        p.base = len(lines)
        lines.extend(p.lines)
    # malformed protocol stream: the driver must refuse it
    junk = ['gen 2 1 0 0 0', 'gen x', 'tri 1 2 3', 'tan 1 1 1 1 0', 'normalise 1 0 0', 'gen 1 1 0 0 0 0 0 -1', 'tri 0 0 0 1 0 0 0 1/0 0']
    model = ctx.driver('C18', lines + junk) if ctx.lean_ok else None
    if model is not None:
        for j, ans in zip(junk, model[len(lines):]):
            ctx.count('driver:malformed-line:' + ans)
            if ans != 'bad-op':
                ctx.violation('corr:driver', 'driver accepted the malformed line %r: %r' % (j, ans), dict(kind='driver', line=j), found_input=False)
    reported = set()
    for p in prepared:
        case = p.case
        m = model[p.base:p.base + len(p.lines)] if model is not None else None
        try:
            bad, div, facts = evaluate(p, m)
        except Exception as e:
            bad, div, facts = ('raised:%s' % type(e).__name__, 'generator raised %s: %s' % (type(e).__name__, e)), None, {}
        ctx.case(case, nontrivial=facts.get('hub', 0) >= 2 and facts.get('distinct_dirs', 0) >= 2)
        ctx.count('mode:' + case['mode'])
        ctx.count('hub-multiplicity:%s' % ('1' if facts.get('hub', 0) <= 1 else '2-3' if facts.get('hub', 0) <= 3 else '4+'))
        for k in set(case['kinds']):
            ctx.count('block:' + k)
        ctx.count('outcome:' + ('rejected' if p.obj is None else 'generated'))
        if p.tri_lines is not None:
            ctx.count('implicit-triangle-normals', len(p.tris))
        if p.tan_line is not None:
            ctx.count('tangents:' + ('generated-normals' if p.gen_first else 'supplied-normals'))
        if facts.get('zero'):
            ctx.count('vertices-with-zero-sum(skipped)', facts['zero'])
        if facts.get('irr'):
            ctx.count('cases-with-irrational-face-normal(oracle only)')
        if facts.get('degenerate'):
            ctx.count('corners-without-tangent-direction(known finding)', len(facts['degenerate']))
        for b in ([bad] if bad else []) + (facts.get('degenerate') or [])[:1]:
            if b[0] in reported:
                continue
            reported.add(b[0])
            small = shrink(case, b[0])
            b2 = fails(small)
            if b2 is None or b2[0] != b[0]:
                small, b2 = case, b
            ctx.violation(b2[0], b2[1], dict(kind='oracle', case=small))
        if bad:
            pass
        elif div:
            sig = 'corr:' + ('tangent' if 'angent' in div else 'normals')
            if sig in reported:
                continue
            reported.add(sig)
            ctx.violation(sig, 'correspondence Pyc.Normals <-> collada.triangleset broke: %s; the direct oracle found no failing input on this '
                          'case (theorems of Pyc/Props/C18.lean no longer describe the code)' % div,
                          dict(kind='correspondence', case=case, model=m), found_input=False)
    for i in range(ctx.n(600, 12000)):
        sseed = ctx.rng.randrange(10 ** 9)
        ctx.count('scaled-mesh')
        try:
            sb = scaled_tri_check(sseed)
        except Exception as e:
            sb = ('trinormal:scaled:raised', 'implicit normals of a scaled mesh raised %s: %s' % (type(e).__name__, e))
        if sb and sb[0] not in reported:
            reported.add(sb[0])
            ctx.violation(sb[0], sb[1], dict(kind='scaled', seed=sseed))
    ctx.assumptions.append('sqrt / float division are parameters of the model; float32 results are compared with exact rational directions under: ' + BOUNDS)
    ctx.assumptions.append('numpy fancy indexing, numpy.add.at and numpy.cross are modelled (Pyc/Model/Normals.lean), not verified')


def replay(ctx, rep):
    if rep.get('kind') == 'scaled':
        sb = scaled_tri_check(rep['seed'])
        if sb:
            print('  ' + sb[1])
        return sb is not None
    case = rep['case']
    if rep.get('kind') == 'correspondence' and rep.get('model'):
        # no failing input was found for this one: re-run the comparison against the recorded model answers
        bad, div, _ = evaluate(prepare(case), rep['model'])
        if div and not bad:
            print('  correspondence: ' + div)
            return True
    bad = fails(case)
    if bad:
        print('  %s: %s' % bad)
    return bad is not None
