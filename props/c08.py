"""C08 — load failures are DaeErrors, ignorable, and contained.

Proof: Pyc/Props/C08.lean (handleError_spec, containment, unlisted_aborts, clear_mask, no_invention, independent_loaded,
dependent_is_broken_ref; all_dae_subclass / kinds_unrelated over the class table translators/err_classes.py regenerates).
Correspondence: for every damaged document the sequence of errors the all-ignoring load records, replayed through Pyc.Err.loadAll under
every ignore configuration (none / the raised class / DaeError / an unrelated class), vs what the real constructor does under
that configuration (class that escapes, or the recorded errors); issubclass and ignoreErrors vs the model functions.
Direct oracle: per fault (every element / attribute / numeric token of generated documents as a site, seven fault kinds, single and
combined): the escaping exception is a DaeError subclass of the documented kind, never a raw exception; masked loads complete, record the
error, keep every independent object exactly as in the undamaged load and invent none; unrelated masks still abort; the mask can be cleared.
Document level (Pyc/Model/DocLoad.lean, Pyc/Props/C08b.lean, props/c08_docload.py): the libraries that refer to each other by id, loaded in the
generated order; loaded_iff_good: what a completed load holds is exactly the objects that are undamaged and refer, transitively, only to such
objects; correspondence on generated multi-library documents with several damaged objects and dangling references, under five masks.
"""
import io
import random
import re
import xml.etree.ElementTree as ET

from vlib import core, snap, docgen, faults
from props import c19

PID = 'C08'
TRANSLATORS = ['err_classes', 'load_order', 'xsd_table']
LEAN_PROPS = ['Pyc.Props.C08', 'Pyc.Props.C08b']
LEAN_MODULES = ['Pyc.Model.Errors', 'Pyc.Model.DocLoad', 'Pyc.Model.Validate']
META = dict(
    level_text=('Proof: Pyc/Props/C08.lean proves for the loader\'s error discipline - every library loader a fold in which each per-item DaeError goes through '
                'handleError - that an error is always recorded and re-raised iff no masked class is a superclass, that with all raised classes masked a library '
                'holds exactly the items whose own load succeeds, in order, with all errors recorded (containment), that nothing is invented (no_invention), that the '
                'first unmasked error aborts (unlisted_aborts), that clearing the mask restores strictness, and that undamaged objects whose references were loaded '
                'load unchanged while dependants of a lost object become broken references; the class hierarchy is read from the source on every run. '
                'Pyc/Props/C08b.lean lifts containment to the whole document: over the libraries that look each other up by id, in the load order read from the source '
                '(real_order_ordered over the generated dependency table), a completed load holds exactly the good objects - undamaged and referring, transitively, only to '
                'good objects (loaded_iff_good, real_loaded_iff_good), independent of the mask and of the errors recorded. '
                'Which exception class each parse site raises is decided by fault enumeration on the implementation.'),
    level_note=('Trusted: Lean kernel + standard axioms; translators/err_classes.py; Pyc/Model/Errors.lean (the fold shape of the library loaders is modelled, the '
                'per-object loaders are not; Pyc/Model/DocLoad.lean reduces an object to damaged / references and leaves nodes and scenes to Pyc/Model/Refs.lean); translators/load_order.py; vlib/faults.py and the generators; XML well-formedness is delegated to the parser. '
                'Allowed error kinds per fault kind: dangling -> BrokenRef (Incomplete/Malformed when the loader needs the target\'s data first), reference without # -> Malformed/BrokenRef, '
                'non-numeric -> Malformed, emptied / removed child / removed attribute -> any DaeError subclass, truncated -> Malformed.'),
    technique='Lean 4 theorems on the handleError/mask fold (containment, no invention, abort on unlisted) and on the document-level load over the generated library order (loaded iff good) + AST-derived class table + fault enumeration over every site of generated documents with four ignore configurations',
)
CLASSES = ['DaeIncompleteError', 'DaeBrokenRefError', 'DaeMalformedError', 'DaeUnsupportedError']
ALLOWED = {
    'dangling': {'DaeBrokenRefError', 'DaeIncompleteError', 'DaeMalformedError'},
    'nohash': {'DaeMalformedError', 'DaeBrokenRefError', 'DaeIncompleteError'},
    'nonnumeric': {'DaeMalformedError'},
    'emptied': set(CLASSES),
    'dropchild': set(CLASSES),
    'dropattr': set(CLASSES),
    'truncated': {'DaeMalformedError'},
}


def load(data, ignore=None):
    """returns (outcome class or 'ok', doc or None)"""
    import collada
    from collada.common import DaeError
    try:
        d = collada.Collada(io.BytesIO(data), ignore=ignore)
        return 'ok', d
    except DaeError as e:
        # the documented kind: the nearest class of the documented hierarchy (a private subclass counts as its base)
        return kname(e), None
    except Exception as e:
        return 'raw:' + type(e).__name__, None


def kname(e):
    """the documented kind of an error object: the nearest class of the documented hierarchy (a private subclass counts as its base)"""
    for k in type(e).__mro__:
        if k.__name__ in CLASSES + ['DaeError', 'DaeSaveValidationError']:
            return k.__name__
    return type(e).__name__


def cls(name):
    from collada import common
    return getattr(common, name)


def closure_ids(doc):
    """for every library object: ids (library:id) of the library objects it refers to, transitively"""
    from collada import scene, material, controller
    direct = {}

    def key(lib, o):
        return '%s:%s' % (lib, o.id)

    def node_refs(n, acc):
        for c in getattr(n, 'children', []):
            if isinstance(c, scene.NodeNode):
                acc.add('node:%s' % c.node.id)
            elif isinstance(c, scene.GeometryNode):
                acc.add(key('geometries', c.geometry))
                for m in c.materials:
                    acc.add(key('materials', m.target))
            elif isinstance(c, scene.ControllerNode):
                acc.add(key('controllers', c.controller))
                for m in c.materials:
                    acc.add(key('materials', m.target))
            elif isinstance(c, scene.LightNode):
                acc.add(key('lights', c.light))
            elif isinstance(c, scene.CameraNode):
                acc.add(key('cameras', c.camera))
            elif isinstance(c, scene.Node):
                node_refs(c, acc)
    for e in doc.effects:
        direct[key('effects', e)] = set(key('images', p.image) for p in e.params if isinstance(p, material.Surface))
    for m in doc.materials:
        direct[key('materials', m)] = {key('effects', m.effect)}
    for c in doc.controllers:
        g = getattr(c, 'geometry', None) or getattr(c, 'source_geometry', None)
        direct[key('controllers', c)] = set([key('geometries', g)] if g is not None else []) | set(key('geometries', t[0]) for t in getattr(c, 'target_list', []))
    for n in doc.nodes:
        acc = set()
        node_refs(n, acc)
        direct[key('nodes', n)] = set(('nodes:' + a[5:]) if a.startswith('node:') else a for a in acc)
    for s in doc.scenes:
        acc = set()
        for n in s.nodes:
            node_refs(n, acc)
        direct[key('scenes', s)] = set(('nodes:' + a[5:]) if a.startswith('node:') else a for a in acc)
    for lib in ('geometries', 'images', 'lights', 'cameras'):
        for o in getattr(doc, lib):
            direct.setdefault(key(lib, o), set())

    def close(k, seen):
        for d in direct.get(k, ()):
            if d not in seen:
                seen.add(d)
                close(d, seen)
        return seen
    return dict((k, close(k, set())) for k in direct)


LIBTAG = {'geometry': 'geometries', 'image': 'images', 'effect': 'effects', 'material': 'materials', 'light': 'lights', 'camera': 'cameras',
          'node': 'nodes', 'visual_scene': 'scenes', 'controller': 'controllers', 'animation': 'animations'}


def by_key(doc):
    s = snap.snapshot(doc)
    out = {}
    for lib in ('geometries', 'images', 'effects', 'materials', 'lights', 'cameras', 'nodes', 'scenes', 'controllers'):
        for x in s[lib]:
            out['%s:%s' % (lib, x.get('id'))] = x
    return out


REQ_LOG = []       # (grandparent, parent, index, child names, verdict of vlib/xsdreq.py) for the correspondence with Pyc.Schema.requiredChild
COMBINATION = {'xfov', 'yfov', 'xmag', 'ymag', 'aspect_ratio'}   # the loader documents an invalid combination of these as malformed


def schema_required(data, site):
    """is the removed child required by the shipped schema in its parent (content model valid with it, invalid without it)?"""
    from vlib import xsdreq
    root = ET.fromstring(data)
    parent = dict((c, p) for p in root.iter() for c in p)
    el = list(root.iter())[site[1]]
    kids = [faults.local(k) for k in el]
    gp = parent.get(el)
    verdict = xsdreq.required_child(core.REPO, faults.local(gp) if gp is not None else '', faults.local(el), kids, site[2])
    if len(REQ_LOG) < 3000 and all(' ' not in k and ';' not in k for k in kids):
        REQ_LOG.append((faults.local(gp) if gp is not None else '-', faults.local(el), site[2], kids, verdict))
    if kids[site[2]] in COMBINATION:
        return False
    return bool(verdict)


PRIMITIVES = ('triangles', 'tristrips', 'trifans', 'lines', 'linestrips', 'polylist', 'polygons')


def prim_input_site(data, site):
    """is the damaged attribute the `source` of an <input> of a primitive?"""
    root = ET.fromstring(data)
    parent = dict((c, p) for p in root.iter() for c in p)
    el = list(root.iter())[site[1]]
    return site[2] == 'source' and faults.local(el) == 'input' and el in parent and faults.local(parent[el]) in PRIMITIVES


def required_ref_attr(data, site):
    """url / target of an instance element, or source / semantic / offset of an <input> of a primitive or of <vertices>"""
    root = ET.fromstring(data)
    parent = dict((c, p) for p in root.iter() for c in p)
    el = list(root.iter())[site[1]]
    name = faults.local(el)
    if name.startswith('instance_') and site[2] in ('url', 'target'):
        return True
    return name == 'input' and el in parent and faults.local(parent[el]) in PRIMITIVES + ('vertices',) and site[2] in ('source', 'semantic', 'offset') \
        and not (site[2] == 'offset' and faults.local(parent[el]) == 'vertices')


def check_fault(data, site, base):
    """base = (doc, closure, by_key snapshot, ids) of the undamaged load. Returns (result or None, info)"""
    kind = site[0]
    bad, owner = faults.apply(data, site)
    strict, _ = load(bad)
    info = dict(strict=strict)
    if strict.startswith('raw:'):
        return ('raw:%s:%s' % (kind, strict[4:]), 'fault %s makes the loader raise the raw exception %s' % (describe(data, site), strict[4:])), info
    if strict == 'ok':
        return None, info
    allowed = ALLOWED[kind]
    if kind == 'dropchild' and schema_required(data, site):
        # "needed data isn't there" (DaeIncompleteError), the definition of something referred to is gone (DaeBrokenRefError) or the only
        # supported variant is gone (DaeUnsupportedError) - but nothing is "corrupted": the documented meaning of DaeMalformedError
        allowed = allowed - {'DaeMalformedError'}
    if kind == 'dropattr' and required_ref_attr(data, site):
        # a required attribute that is gone is "needed data that isn't there": the documented meaning of DaeIncompleteError
        allowed = {'DaeIncompleteError'}
    if kind == 'nohash' and prim_input_site(data, site):
        # the input table of a primitive tells a malformed reference ("Incorrect source id") from a dangling one ("not found"):
        # Pyc.Validate.resolve, C09.bad_reference_is_malformed; the two fault kinds of the property have two documented kinds here
        allowed = {'DaeMalformedError'}
    if strict not in allowed:
        return ('wrong-kind:%s:%s' % (kind, strict), 'fault %s raises %s, expected one of %s' % (describe(data, site), strict, sorted(allowed))), info
    if kind == 'truncated':
        return None, info
    # ---- ignore configurations
    for mask_name, mask in (('exact', [cls(strict)]), ('base', [cls('DaeError')])):
        out, d = load(bad, ignore=mask)
        if out.startswith('raw:'):
            return ('raw-masked:%s:%s' % (kind, out[4:]), 'fault %s with %s ignored raises the raw exception %s' % (describe(data, site), mask_name, out[4:])), info
        if out != 'ok':
            if mask_name == 'base':
                return ('not-ignorable:%s:%s' % (kind, out), 'fault %s: %s escapes although DaeError is ignored' % (describe(data, site), out)), info
            continue     # a second, different error class may follow the first one: only the base mask must complete
        recorded = [kname(e) for e in d.errors]
        if strict not in recorded:
            return ('not-recorded:%s' % kind, 'fault %s: %s was ignored but not recorded in errors (%s)' % (describe(data, site), strict, recorded)), info
        info['errors'] = recorded
        res = containment(data, site, owner, d, base)
        if res:
            return res, info
    # the four documented kinds are siblings below DaeError: each of the other three is unrelated to the one raised
    # (by the DOCUMENTED hierarchy, not by issubclass on the code under test — a class that was quietly made a base of another is the fault)
    for other in [c for c in CLASSES if c != strict]:
        out, _ = load(bad, ignore=[cls(other)])
        if out != strict:
            return ('unrelated-mask:%s' % kind, 'fault %s raises %s strictly but %s when the unrelated %s is ignored' % (describe(data, site), strict, out, other)), info
    return None, info


def containment(data, site, owner, d, base):
    doc0, closure, snap0, ids0 = base
    got = by_key(d)
    owner_key = None
    if owner is not None:
        t = faults.local(owner)
        if t in LIBTAG:
            owner_key = '%s:%s' % (LIBTAG[t], owner.get('id'))
    # no invention: every loaded id is an id of the undamaged document (or the damaged element's own changed id)
    for k in got:
        if k not in snap0 and k != owner_key and not (owner is not None and site[0] == 'dropattr' and site[2] == 'id'):
            return ('invented', 'fault %s with the error ignored: object %s is in the model but not in the document' % (describe(data, site), k))
    if owner_key is None:
        return None
    if owner_key in got and owner_key in snap0 and owner_key.split(':')[0] in ('nodes', 'scenes') and not (site[0] == 'dropattr' and site[2] in ('id', 'name')):
        pr = is_part_of(got[owner_key], snap0[owner_key])
        if pr:
            return ('invented-inside:%s' % site[0], 'fault %s with the error ignored: the damaged %s is loaded with content the document does not have: %s'
                    % (describe(data, site), owner_key, pr))
    for k, s0 in snap0.items():
        if k == owner_key or owner_key in closure.get(k, ()):
            continue
        if site[0] == 'dropattr' and site[2] == 'id':
            continue       # removing an id changes what references resolve to; only the raw-exception clauses apply
        if k not in got:
            return ('lost-independent:%s' % site[0], 'fault %s with the error ignored: independent object %s was not loaded' % (describe(data, site), k))
        df = snap.diff(s0, got[k])
        if df:
            return ('changed-independent:%s' % site[0], 'fault %s with the error ignored: independent object %s differs from the undamaged load: %s' % (describe(data, site), k, df[:2]))
    return None


def is_part_of(small, big):
    """per-child containment: what remains of a damaged node / scene must be what the undamaged document has there, with some
    children missing - never more, never something else. Returns None or a description."""
    if isinstance(small, dict) and isinstance(big, dict):
        if small.get('kind') != big.get('kind'):
            return 'kind %r vs %r' % (small.get('kind'), big.get('kind'))
        for key in ('children', 'nodes', 'transforms', 'materials'):
            if key in small:
                a, b = small[key], big.get(key, [])
                j = 0
                for x in a:
                    while j < len(b) and is_part_of(x, b[j]) is not None:
                        j += 1
                    if j == len(b):
                        return '%s holds %s which the document does not have there (%d loaded, %d in the document)' % (key, str(x)[:80], len(a), len(b))
                    j += 1
        for key in small:
            if key in ('children', 'nodes', 'transforms', 'materials', 'matrix'):
                continue
            if small[key] != big.get(key):
                return '%s: %r vs %r' % (key, small[key], big.get(key))
        return None
    return None if small == big else '%r vs %r' % (small, big)


def describe(data, site):
    if site[0] == 'truncated':
        return 'truncated at %d%%' % int(site[2] * 100)
    root = ET.fromstring(data)
    el = list(root.iter())[site[1]]
    extra = site[2]
    if site[0] == 'dropchild':
        extra = faults.local(list(el)[site[2]])
    return '%s <%s> %s' % (site[0], faults.local(el), extra)


def graph_masks(seed):
    """instance_node graphs (dangling, self- and mutually referring targets; in <library_nodes> or as scene roots; nested or not) under every
    ignore configuration: strict outcome is ok or DaeBrokenRefError; exact / base class masks complete; an unrelated mask changes nothing. Returns None or (sig, text)"""
    from props import c07
    r = random.Random('c08g/%s' % seed)
    defs = c07.graph_case(r)
    where = r.choice(['library', 'scene'])
    nest = r.random() < 0.4
    data = c07.graph_doc(defs, where, nest)
    what = 'instance_node graph %s (%s%s)' % (defs, where, ', nested' if nest else '')
    strict, _ = load(data)
    if strict.startswith('raw:'):
        return ('graph:raw:' + strict[4:], '%s: the loader raises the raw exception %s' % (what, strict[4:]))
    if strict not in ('ok', 'DaeBrokenRefError'):
        return ('graph:wrong-kind:' + strict, '%s: the loader raises %s' % (what, strict))
    for name, mask in (('DaeBrokenRefError', [cls('DaeBrokenRefError')]), ('DaeError', [cls('DaeError')])):
        out, d = load(data, ignore=mask)
        if out != 'ok':
            return ('graph:not-ignorable:' + out.split(':')[0], '%s: with %s ignored the load ends with %s' % (what, name, out))
        if strict != 'ok' and 'DaeBrokenRefError' not in [kname(e) for e in d.errors]:
            return ('graph:not-recorded', '%s: strict load raises DaeBrokenRefError but the masked load records %s' % (what, [kname(e) for e in d.errors]))
    for other in ('DaeMalformedError', 'DaeIncompleteError', 'DaeUnsupportedError'):
        out, _ = load(data, ignore=[cls(other)])
        if out != strict:
            return ('graph:unrelated-mask', '%s: strict outcome %s, with the unrelated %s ignored %s' % (what, strict, other, out))
    return None


def mask_history(seed):
    """returns None or (sig, text)"""
    import collada
    r = random.Random('c08mask/%s' % seed)
    allcls = CLASSES + ['DaeError']
    cfg = [cls(c) for c in r.sample(allcls, r.randint(0, 2))] if r.random() < 0.6 else None       # an application keeps one ignore list and hands it to every document
    cfg0 = None if cfg is None else list(cfg)
    d = collada.Collada(ignore=cfg)
    eff = [m.__name__ for m in d.maskedErrors]
    hist = ['new(%s)' % ','.join(eff)]
    nrec = len(d.errors)
    for _ in range(r.randint(1, 8)):
        k = r.random()
        if k < 0.3:
            d.ignoreErrors(None)
            eff = []
            hist.append('ignoreErrors(None)')
        elif k < 0.6:
            args = r.sample(allcls, r.randint(1, 2))
            d.ignoreErrors(*[cls(a) for a in args])
            eff = eff + args
            hist.append('ignoreErrors(%s)' % ','.join(args))
        else:
            c = r.choice(CLASSES)
            hist.append('error(%s)' % c)
            want = any(issubclass(cls(c), cls(m)) for m in eff)
            try:
                try:
                    raise cls(c)('probe')
                except cls('DaeError') as e:
                    d.handleError(e)
                got = True
            except cls('DaeError'):
                got = False
            except Exception as e:
                return ('mask-history:raw', 'after %s handleError raised the raw exception %s' % (hist, type(e).__name__))
            nrec += 1
            if got != want:
                return ('mask-history:' + ('not-restored' if got else 'not-ignored'),
                        'after %s a %s %s although the classes ignored since the last clearing are %s' % (hist, c, 'is ignored' if got else 'aborts', eff))
            if len(d.errors) != nrec:
                return ('mask-history:not-recorded', 'after %s the handled error was not recorded' % hist)
        if cfg is not None and cfg != cfg0:
            return ('mask-history:callers-list-modified', 'after %s the list the caller passed as ignore=%s has become %s: the next document created from it gets another mask'
                    % (hist, [c.__name__ for c in cfg0], [getattr(c, '__name__', c) for c in cfg]))
    if cfg is not None:
        d2 = collada.Collada(ignore=cfg)
        if [m.__name__ for m in d2.maskedErrors] != [c.__name__ for c in cfg0]:
            return ('mask-history:second-document', 'a second document created with the same ignore list has the mask %s, the list was %s'
                    % ([m.__name__ for m in d2.maskedErrors], [c.__name__ for c in cfg0]))
    return None


def make_base(seed, kind):
    if kind == 'controller':
        r = random.Random('c08c/%s' % seed)
        while True:
            c, exp = c19.gen_case(r)
            if exp == 'ok':
                break
        data = c19.doc_xml(c)
    else:
        data = docgen.generate(seed)
    out, doc = load(data)
    if out != 'ok':
        return None
    ids = None
    return data, (doc, closure_ids(doc), by_key(doc), ids)


def run(ctx):
    del REQ_LOG[:]
    ctx.rule = ('base documents from vlib/docgen.py and controller documents from the C19 generator; every element, attribute and numeric token is a site '
                '(sampled per document in the quick tier, enumerated completely for some documents in the thorough tier); kinds: dangling, nohash, nonnumeric, emptied, '
                'dropchild, dropattr, truncated (at 10 fractions); pairs of faults; ignore configurations: none, exact class, DaeError, unrelated class; '
                'non-trivial = the fault changes the strict outcome; distinct by (document, site)')
    reported = set()
    lines, wants = [], []
    nbase = ctx.n(14, 300)
    persite = 45 if not ctx.thorough else 400
    for b in range(nbase):
        seed = ctx.rng.randrange(10 ** 9)
        kind = 'controller' if b % 5 == 4 else 'docgen'
        base = make_base(seed, kind)
        if base is None:
            continue
        data, info0 = base
        root = ET.fromstring(data)
        ss = faults.sites(root)
        exhaustive = ctx.thorough and b % 10 == 0
        if exhaustive:
            chosen = ss
        else:
            # stratified: at least one site of every (fault kind, element, attribute/child, library it sits in) class of this document, the rest at random
            els = list(root.iter())
            lib_of = {}
            for lib in root:
                for e in lib.iter():
                    lib_of[e] = faults.local(lib)
            groups = {}
            for st in ss:
                e = els[st[1]]
                extra = st[2] if isinstance(st[2], str) else ''
                groups.setdefault((st[0], faults.local(e), extra, lib_of.get(e)), []).append(st)
            keys = sorted(groups, key=str)
            ctx.rng.shuffle(keys)
            chosen = [ctx.rng.choice(groups[k]) for k in keys]
            rest = [st for st in ss if st not in chosen]
            chosen += ctx.rng.sample(rest, min(len(rest), 10))
        chosen = chosen + [('truncated', 0, f) for f in (0.1, 0.3, 0.5, 0.7, 0.9, 0.97)]
        for site in chosen:
            res, info = check_fault(data, site, info0)
            ctx.case(dict(base=kind, seed=seed, site=list(site), outcome=info.get('strict')), nontrivial=info.get('strict') != 'ok')
            ctx.count('fault:' + site[0])
            ctx.count('outcome:' + str(info.get('strict')).split(':')[0])
            if res and res[0] not in reported:
                reported.add(res[0])
                ctx.violation('c08:' + res[0], res[1], dict(kind='fault', base=kind, seed=seed, site=list(site)))
            if info.get('errors') and len(lines) < 4000:
                errs = info['errors']
                bad, _ = faults.apply(data, site)
                for mask in ([], [info['strict']], ['DaeError'], [c for c in CLASSES if c != info['strict']][:1]):
                    out, d = load(bad, ignore=[cls(m) for m in mask])
                    lines.append('mask %s ; %s' % (' '.join(mask), ' '.join(errs)))
                    wants.append(('ok errors=' + ','.join(kname(e) for e in d.errors)) if out == 'ok' else 'raise:' + out)
        # pairs of faults
        for _ in range(6 if not ctx.thorough else 40):
            s1, s2 = ctx.rng.sample(ss, 2)
            bad1, _ = faults.apply(data, s1)
            try:
                bad2, _ = faults.apply(bad1, s2)
            except Exception:
                continue
            for mask in (None, [cls('DaeError')]):
                out, d = load(bad2, ignore=mask)
                ctx.count('pair')
                if out.startswith('raw:') and ('raw-pair:' + out) not in reported:
                    reported.add('raw-pair:' + out)
                    ctx.violation('c08:raw-pair:' + out[4:], 'faults %s and %s together raise the raw exception %s' % (describe(data, s1), describe(bad1, s2), out[4:]),
                                  dict(kind='pair', base=kind, seed=seed, sites=[list(s1), list(s2)]))
                if mask and out not in ('ok',) and not out.startswith('raw:') and 'pair-not-ignorable' not in reported:
                    reported.add('pair-not-ignorable')
                    ctx.violation('c08:pair-not-ignorable', 'faults %s and %s: %s escapes although DaeError is ignored' % (describe(data, s1), describe(bad1, s2), out),
                                  dict(kind='pair', base=kind, seed=seed, sites=[list(s1), list(s2)]))
    # document level: several libraries, several damaged objects and dangling references at once
    from props import c08_docload as dl
    dlines, dwants, dcases = [], [], []
    for k in range(ctx.n(60, 2500)):
        dseed = ctx.rng.randrange(10 ** 9)
        case = dl.gen_case(random.Random('c08dl/%s' % dseed))
        goods, eff = dl.good_set(case)
        ctx.case(dict(kind='docload', seed=dseed, objects=len(eff), good=len(goods)), nontrivial=0 < len(goods) < len(eff))
        ctx.count('docload:documents')
        res = dl.check_case(case)
        if res and res[0] not in reported:
            reported.add(res[0])
            ctx.violation('c08:' + res[0], res[1], dict(kind='docload', seed=dseed))
        for mask in dl.MASKS:
            dlines.append(dl.model_line(case, mask))
            dwants.append(dl.real(case, mask)[0])
            dcases.append((dseed, mask))
    if ctx.lean_ok and dlines:
        for l, w, m, (dseed, mask) in zip(dlines, dwants, ctx.driver('C08b', dlines), dcases):
            ctx.count('kernel:doc')
            ctx.count('docload:' + w.split(' ')[0].split(':')[0])
            got = m.split(' ')[0] if w.startswith('raise:') else m
            if got != w and 'corr:doc' not in reported and not any(v['found_input'] for v in ctx.violations):
                reported.add('corr:doc')
                ctx.violation('corr:doc', 'loader and Pyc.DocLoad.loadDoc disagree under mask %r: model %r, loader %r' % (mask, m, w),
                              dict(kind='docload-corr', seed=dseed, mask=mask, line=l), found_input=False)
    # the "schema requires this child" oracle (vlib/xsdreq.py, Python regular expressions) against Pyc.Schema.requiredChild
    # (Brzozowski matching over the content models generated from the shipped XSD)
    if ctx.lean_ok and REQ_LOG:
        rl = ['req %s %s %d ; %s' % (gp, par, i, ' '.join(kids)) for gp, par, i, kids, v in REQ_LOG]
        for l, (gp, par, i, kids, v), m in zip(rl, REQ_LOG, ctx.driver('C08c', rl)):
            ctx.count('kernel:required-child')
            w = 'none' if v is None else str(bool(v)).lower()
            if m != w and 'corr:required-child' not in reported:
                reported.add('corr:required-child')
                ctx.violation('corr:required-child', 'vlib/xsdreq.py and Pyc.Schema.requiredChild disagree on %r: model %r, oracle %r' % (l, m, w),
                              dict(kind='kernel', line=l), found_input=False)
    # mask clearing on the real object
    import collada
    d = collada.Collada()
    d.ignoreErrors(cls('DaeMalformedError'), cls('DaeBrokenRefError'))
    d.ignoreErrors(None)
    if d.maskedErrors != []:
        ctx.violation('c08:clear-mask', 'ignoreErrors(None) leaves the mask %r' % (d.maskedErrors,), dict(kind='clear'))
    for i in range(ctx.n(200, 5000)):
        gseed = ctx.rng.randrange(10 ** 9)
        res = graph_masks(gseed)
        ctx.count('graph-masks')
        ctx.case(dict(kind='graph-masks', seed=gseed))
        if res and res[0] not in reported:
            reported.add(res[0])
            ctx.violation('c08:' + res[0], res[1], dict(kind='graph-masks', seed=gseed))
    # the mask as behaviour, not as an attribute: after any sequence of ignoreErrors calls (clearing included) an error passes
    # handleError iff one of the classes ignored SINCE THE LAST CLEARING is a superclass of it; every handled error is recorded
    from collada import common as _common
    allcls = CLASSES + ['DaeError']
    for i in range(ctx.n(150, 3000)):
        mseed = ctx.rng.randrange(10 ** 9)
        res = mask_history(mseed)
        ctx.count('mask-history')
        ctx.case(dict(kind='mask-history', seed=mseed))
        if res and res[0] not in reported:
            reported.add(res[0])
            ctx.violation('c08:' + res[0], res[1], dict(kind='mask-history', seed=mseed))
    # malformed vs dangling references in the input table of a primitive (Pyc.Validate.resolve; C09.bad_reference_is_malformed / dangling_reference_is_broken)
    from props import c09
    rl, rwant, rcases = [], [], []
    for i in range(ctx.n(200, 3000)):
        rr = random.Random('c08r/%s/%d' % (ctx.seed, i))
        case = c09.gen_case(rr)[0]
        if c09.truth(case)[0] or not c09.run_impl(case)[0].startswith('ok'):
            continue
        how = rr.choice(['nohash', 'dangling'])
        k = rr.randrange(len(case['inputs']))
        if how == 'dangling' and case['inputs'][k][2] == 'v' and case['route'] == 'L':
            how = 'nohash'
        case['inputs'][k][2] = 'x' if how == 'nohash' else len(case['sources']) + 3
        got = c09.run_impl(case)[0]
        want = 'err:DaeMalformedError' if how == 'nohash' else 'err:DaeBrokenRefError'
        ctx.count('refkind:' + how)
        ctx.case(dict(kind='refkind', how=how, line=c09.line_of(case)[:200]))
        if got != want and 'refkind:' + how not in reported:
            reported.add('refkind:' + how)
            ctx.violation('c08:refkind:%s:%s' % (how, got), 'a primitive whose input %d has %s (%s route; every other reference resolves) ends with %s, the documented kind is %s. Case: %s'
                          % (k, "a source text without '#'" if how == 'nohash' else 'a reference to a source that does not exist', 'loader' if case['route'] == 'L' else 'constructor',
                             got, want[4:], c09.line_of(case)), dict(kind='refkind', case=case, want=want))
        rl.append(c09.line_of(case)); rwant.append(got); rcases.append(case)
    if ctx.lean_ok and rl:
        for l, g, m in zip(rl, rwant, ctx.driver('C09', rl)):
            if m.split(' ')[0] != g.split(' ')[0] and 'corr:refkind' not in reported:
                reported.add('corr:refkind')
                ctx.violation('corr:refkind', 'Pyc.Validate.construct and the real primitive disagree on %r: model %r, implementation %r' % (l, m[:80], g[:80]),
                              dict(kind='refkind-corr', line=l), found_input=False)
    # class table and ignoreErrors correspondence
    from collada import common
    names = [n for n in dir(common) if n.startswith('Dae') and n.endswith('Error')]
    for a in names:
        for b in names:
            lines.append('sub %s %s' % (a, b))
            wants.append(str(issubclass(getattr(common, a), getattr(common, b))).lower())
    if ctx.lean_ok and lines:
        for l, w, m in zip(lines, wants, ctx.driver('C08', lines)):
            ctx.count('kernel:' + l.split()[0])
            got = m if not (w.startswith('raise:') and m.startswith('raise:')) else m.split(' ')[0]
            if got != w and 'corr:' + l.split()[0] not in reported and not any(v['found_input'] for v in ctx.violations):
                reported.add('corr:' + l.split()[0])
                ctx.violation('corr:' + l.split()[0], 'loader and Pyc.Err disagree on %r: model %r, loader %r' % (l, m, w), dict(kind='kernel', line=l), found_input=False)


def replay(ctx, rep):
    if rep.get('kind') == 'refkind':
        from props import c09
        got = c09.run_impl(rep['case'])[0]
        print('  %s -> %s (documented: %s)' % (c09.line_of(rep['case']), got, rep['want']))
        return got != rep['want']
    if rep.get('kind') == 'fault':
        base = make_base(rep['seed'], rep['base'])
        data, info0 = base
        res, info = check_fault(data, tuple(rep['site']), info0)
        if res:
            print('  ' + res[1])
        return res is not None
    if rep.get('kind') == 'pair':
        data, info0 = make_base(rep['seed'], rep['base'])
        bad1, _ = faults.apply(data, tuple(rep['sites'][0]))
        bad2, _ = faults.apply(bad1, tuple(rep['sites'][1]))
        out, _ = load(bad2)
        out2, _ = load(bad2, ignore=[cls('DaeError')])
        print('  strict: %s, ignoring DaeError: %s' % (out, out2))
        return out.startswith('raw:') or out2 != 'ok'
    if rep.get('kind') == 'graph-masks':
        res = graph_masks(rep['seed'])
        if res:
            print('  ' + res[1])
        return res is not None
    if rep.get('kind') == 'mask-history':
        res = mask_history(rep['seed'])
        if res:
            print('  ' + res[1])
        return res is not None
    if rep.get('kind') == 'docload':
        from props import c08_docload as dl
        res = dl.check_case(dl.gen_case(random.Random('c08dl/%s' % rep['seed'])))
        if res:
            print('  ' + res[1])
        return res is not None
    if rep.get('kind') == 'clear':
        import collada
        d = collada.Collada()
        d.ignoreErrors(cls('DaeMalformedError'))
        d.ignoreErrors(None)
        return d.maskedErrors != []
    return False
