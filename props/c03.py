"""C03 — saving is idempotent, non-destructive and failure-safe.

Proof: Pyc/Props/C03.lean over Pyc/Model/SaveMachine.lean; the statement order of Collada.write / Collada.save and the
library order are regenerated from the source on every run (translators/write_order.py), so a change of that order
breaks `save_before_open`, `check_scene_first` or `failed_write_fs_untouched`.
Correspondence: after a save() that raised part-way (invalid camera) the children of every library element of the real
document vs Pyc.SaveM.savePrefix over the generated library order.
Direct oracle: bytes of successive writes, deep model snapshot before/after save, survival of unmodelled document-level
content, destination untouched on failed save, output after any failure equal to a run that never failed,
a sink raising after k accepted bytes.
Pretty printer: Pyc/Model/Indent.lean models collada.xmlutil.indent; Pyc/Props/C03b.lean proves that it changes XML white space only
(content_indent) and that applying it again changes nothing (indent_idem); tie: the real indent() vs the model on random trees.
"""
import copy
import hashlib
import io
import os
import random
import shutil
import tempfile
import xml.etree.ElementTree as ET

import numpy

from vlib import core, snap, modelgen, editgen
from props import c02

PID = 'C03'
TRANSLATORS = ['write_order']
LEAN_PROPS = ['Pyc.Props.C03', 'Pyc.Props.C03b', 'Pyc.Props.C03c']
LEAN_MODULES = ['Pyc.Model.SaveMachine', 'Pyc.Model.Sync', 'Pyc.Model.Indent']
META = dict(
    level_text=('Proof: Pyc/Props/C03.lean proves for the save/write machine that any number of saves equals one '
                '(save_idem, saves_any_number, history_bytes), that unmanaged children survive (unmanaged_preserved), that a save '
                'which raised after reconciling any number k of sites followed by a save of the repaired model gives the result of a '
                'run that never failed (failed_prefix_then_ok, failed_write_then_ok), that a failed save leaves the destination path '
                'untouched (failed_write_fs_untouched, which depends on the statement order of write() read from the source on this run), '
                'and that a sink failing after any number of bytes does not influence a later write (failing_sink_then_ok).'),
    level_note=('Trusted: Lean kernel + standard axioms; translators/write_order.py (AST extraction of step and library order); '
                'Pyc/Model/SaveMachine.lean; filesystem semantics (truncate on open, buffering) and the ElementTree serialiser are outside the '
                'model and observed only by the direct check; "model unchanged" is judged on the public snapshot plus array shapes/dtypes and dict keys.'),
    technique='Lean 4 theorems on a save/write state machine whose step order is translated from the source each run, on a model of the pretty printer indent() (touches XML white space only, idempotent) and on a model of the root loop of Collada.save over the generated library tuple (saveRoot_idem: two saves leave what one leaves, for every list of root children) + correspondence of partially failed saves, of indent() and of the root children + byte-level oracle with failing sinks and a bystander document',
)


def deep(doc):
    """public snapshot plus the private-ish state a save might disturb"""
    s = snap.snapshot(doc, errors=True)
    extra = []
    for g in doc.geometries:
        extra.append(('keys', g.id, [str(k) for k in g.sourceById.keys()]))
        for k, src in g.sourceById.items():
            if hasattr(src, 'data'):
                shape = tuple(src.data.shape)
                if len(shape) == 1 and len(src.components):
                    shape = (shape[0] // len(src.components), len(src.components))     # assigned unshaped (as the constructor takes it); save() gives it the documented shape
                extra.append(('src', str(k), shape, str(src.data.dtype), type(src.components).__name__, list(src.components)))
        for p in g.primitives:
            extra.append(('prim', type(p).__name__, None if p.index is None else (tuple(p.index.shape), str(p.index.dtype))))
            # every array the primitive holds under any name (`indices` is the documented alias of `index`), with shape, type and values
            for name, v in sorted(vars(p).items()):
                if isinstance(v, numpy.ndarray):
                    # (a float array is the data of a source: assigned unshaped, save() gives that very array the documented shape — size, not shape)
                    shape = tuple(v.shape) if v.dtype.kind in 'iu' else ('size', int(v.size))
                    extra.append(('prim.' + name, shape, str(v.dtype), hashlib.sha1(numpy.ascontiguousarray(v).tobytes()).hexdigest()[:12]))
    # where the document says it came from (auxiliary files are looked up relative to it, lazily)
    extra.append(('filename', repr(getattr(doc, 'filename', None))))
    s['_deep'] = extra
    return s


UNMODELLED = [
    '<library_animations xmlns="{ns}"><asset><created>2001-01-01T00:00:00</created><modified>2001-01-01T00:00:00</modified></asset><animation id="anim1"><source id="anim1-in"><float_array id="anim1-in-a" count="2">0 1</float_array>'
    '<technique_common><accessor source="#anim1-in-a" count="2" stride="1"><param name="TIME" type="float"/></accessor></technique_common></source>'
    '<sampler id="anim1-s"><input semantic="INPUT" source="#anim1-in"/></sampler><channel source="#anim1-s" target="n/t.X"/></animation><extra><technique profile="ANIM"><note>kept</note></technique></extra></library_animations>',
    '<library_physics_materials xmlns="{ns}"><physics_material id="pm1"><technique_common><dynamic_friction>0.5</dynamic_friction></technique_common></physics_material></library_physics_materials>',
    '<extra xmlns="{ns}"><technique profile="MINE"><foo xmlns="urn:other" a="1">text<bar/>tail</foo></technique></extra>',
    '<library_animation_clips xmlns="{ns}"><animation_clip id="clip1" start="0" end="1"><instance_animation url="#anim1"/></animation_clip></library_animation_clips>',
    # character data that Python's str.strip() takes for white space but XML does not (no-break space, em space), in mixed content
    '<extra xmlns="{ns}"><technique profile="WS"><a>&#160;<b/>&#8195;</a><c>&#160;</c></technique></extra>',
    # content in the OTHER COLLADA namespace (1.4.1 elements inside a document of another namespace and the reverse)
    '<extra xmlns="{ns}"><technique profile="OTHER"><note xmlns="{other}" k="v">kept<light id="not-a-light"/>tail</note></technique></extra>',
]
NS14 = 'http://www.collada.org/2005/11/COLLADASchema'
NS15 = 'http://www.collada.org/2008/03/COLLADASchema'


def canon(el):
    """canonical rendering of an element subtree, ignoring whitespace-only text/tails (indent() rewrites those)"""
    def t(x):
        return (x or '').strip(' \t\r\n')      # XML white space only: a no-break space is content
    return (el.tag, sorted(el.attrib.items()), t(el.text), [(canon(c), t(c.tail)) for c in el])


def base_bytes(rng, kind):
    """document bytes of a generated or shipped document, plus unmodelled content injected at the top level"""
    import collada
    if kind == 'generated':
        d = modelgen.build(rng.randrange(10 ** 9), dict(need_geom=True))
        b = io.BytesIO()
        d.write(b)
        data = b.getvalue()
    else:
        data = open(os.path.join(c02.DATA, kind), 'rb').read()
    if kind == 'generated' and rng.random() < 0.5:
        # the same document in another namespace
        data = data.replace(NS14.encode(), rng.choice([NS15, 'urn:x-%04x:collada' % rng.randrange(1 << 16)]).encode())
    root = ET.fromstring(data)
    ns = root.tag.split('}')[0].lstrip('{')
    inj = []
    for frag in UNMODELLED:
        if rng.random() < 0.6:
            el = ET.fromstring(frag.replace('{ns}', ns).replace('{other}', NS15 if ns == NS14 else NS14))
            kids = list(root)
            scene_pos = [i for i, c in enumerate(kids) if c.tag.endswith('}scene')]
            if el.tag.endswith('}extra'):
                pos = len(kids)
            else:
                pos = rng.randint(1, scene_pos[0] if scene_pos else len(kids))
            root.insert(pos, el)
            inj.append(canon(el))
    # what <scene> may hold besides the instance of the default visual scene
    for sc in [c for c in root if c.tag == '{%s}scene' % ns]:
        if rng.random() < 0.6:
            ET.SubElement(sc, '{%s}instance_physics_scene' % ns, url='#physics')
            inj.append('scene/instance_physics_scene')
        if rng.random() < 0.5:
            ex = ET.SubElement(sc, '{%s}extra' % ns)
            ET.SubElement(ex, '{%s}technique' % ns, profile='SCENE').text = 'kept'
            inj.append('scene/extra')
    return ET.tostring(root), inj


ROOT_MANAGED = ['library_geometries', 'library_controllers', 'library_lights', 'library_cameras', 'library_images', 'library_effects',
                'library_materials', 'library_nodes', 'library_visual_scenes']
ROOT_ITEM = dict(library_lights='lights', library_cameras='cameras', library_images='images', library_effects='effects',
                 library_geometries='geometries', library_nodes='nodes', library_visual_scenes='scenes')


def root_case(rng, after_load=None, want_doc=False):
    """a document whose root has the given children — several library elements of one kind, libraries without objects, unmanaged
    libraries, extras, with or without <scene> — through one Collada.save(): (request line, children written, children after a second save)"""
    import collada
    from props import c20
    kids = ['asset'] if rng.random() < 0.9 else []
    uid = [0]
    xml = {}
    pool = ROOT_MANAGED + ['library_animations', 'library_physics_materials', 'extra']
    for _ in range(rng.randint(0, 9)):
        kids.append(rng.choice(pool))
    if rng.random() < 0.4:
        k = rng.choice(ROOT_MANAGED)
        kids += [k] * rng.randint(1, 2)
    rng.shuffle(kids)
    if 'asset' in kids and rng.random() < 0.8:
        kids.remove('asset')
        kids.insert(0, 'asset')
    scene_id = None
    body = []
    for k in kids:
        if k == 'asset':
            body.append('<asset><created>2001-01-01T00:00:00</created><modified>2001-01-01T00:00:00</modified></asset>')
        elif k == 'extra':
            body.append('<extra><technique profile="T"><a>1</a></technique></extra>')
        elif k in ROOT_ITEM and rng.random() < 0.6:
            items = []
            for _ in range(rng.randint(1, 2)):
                uid[0] += 1
                id_ = 'r%d' % uid[0]
                items.append(c20.VALID[ROOT_ITEM[k]].format(p='', id=id_, perm='0 1 2', extra2=''))
                if k == 'library_visual_scenes' and scene_id is None:
                    scene_id = id_
            body.append('<%s>%s</%s>' % (k, ''.join(items), k))
        else:
            body.append('<%s/>' % k)
    if scene_id and rng.random() < 0.7:
        if rng.random() < 0.5:
            pos = next((i for i, k in enumerate(kids) if k == 'extra'), len(kids))
            kids.insert(pos, 'scene')
            body.insert(pos, '<scene><instance_visual_scene url="#%s"/></scene>' % scene_id)
        else:
            scene_id = scene_id + '!'        # the model gets its default scene after loading
    data = ('<COLLADA xmlns="%s" version="1.4.1">%s</COLLADA>' % (NS14, ''.join(body))).encode()
    doc = collada.Collada(io.BytesIO(data))
    if scene_id and scene_id.endswith('!'):
        doc.scene = doc.scenes[scene_id[:-1]]
    if after_load is not None:
        after_load(doc)
    if want_doc:
        return doc, kids
    full = [k for k in ROOT_MANAGED if len(getattr(doc, ROOT_ITEM.get(k, 'controllers')))]
    line = 'root %d ; %s ; %s' % (1 if doc.scene is not None else 0, ' '.join(full), ' '.join(kids))
    doc.save()
    one = [c.tag.split('}')[1] for c in doc.xmlnode.getroot()]
    doc.save()
    two = [c.tag.split('}')[1] for c in doc.xmlnode.getroot()]
    return line, ' '.join(one), ' '.join(two)


class FailingSink(object):
    def __init__(self, k):
        self.k = k
        self.got = 0

    def write(self, data):
        if self.got + len(data) > self.k:
            self.got = self.k
            raise IOError('sink full')
        self.got += len(data)
        return len(data)


def wbytes(doc):
    b = io.BytesIO()
    doc.write(b)
    return b.getvalue()


def make_doc(kind, seed, nops):
    try:
        doc, gen = c02.base_doc(kind, seed, dict(f64=True, rig=True))     # constructed sources may hold numpy's default float64 arrays
    except Exception as e:          # a base document that does not load is not a history of saves
        core.note_skip('c03:base', e)
        return None, []
    hist = []
    for i in range(nops):
        try:
            d = editgen.apply(doc, seed, i, gen)
        except Exception as e:
            core.note_skip('c03:edit', e)
            return None, hist
        if d:
            hist.append(d)
    return doc, hist


def check_history(kind, seed, nops, nsaves, queries):
    """(A) idempotence, non-destruction, interleaving with queries. returns None or (sig, what)"""
    doc, hist = make_doc(kind, seed, nops)
    if doc is None:
        return None
    r = random.Random('c03/%s' % seed)
    before = deep(doc)
    for g in doc.geometries:     # Node.matrix is documented to be refreshed by save(); compare from the first save on
        pass
    try:
        ref = wbytes(doc)
    except Exception as e:
        return ('write:' + type(e).__name__, 'write raised %s: %s' % (type(e).__name__, str(e)[:150]))
    after = deep(doc)
    b0 = copy.deepcopy(before)
    a0 = copy.deepcopy(after)
    if hist:
        # pending edits of transform lists: save() is documented to refresh the node matrices
        for s in (b0, a0):
            _drop_matrices(s)
        df = snap.diff(b0, a0)
    else:
        # nothing was edited: the model after the save is the model before it, to the last bit
        df = snap.diff_exact(b0, a0)
    if df:
        return ('model-changed', 'save changed the in-memory model: %s' % '; '.join(df[:3]))
    for i in range(nsaves):
        k = r.choice(['save', 'write', 'query', 'query', 'wpath'])
        if k == 'save':
            doc.save()
        elif k == 'wpath':
            tmp = tempfile.mkdtemp(prefix='c03w_')
            try:
                path = os.path.join(tmp, 'copy.dae')
                doc.write(path)
                if open(path, 'rb').read() != ref:
                    return ('not-idempotent', 'write number %d (to a path) after %s produced different bytes than the first write' % (i + 2, hist))
            finally:
                shutil.rmtree(tmp, ignore_errors=True)
        elif k == 'write':
            if wbytes(doc) != ref:
                return ('not-idempotent', 'write number %d after %s produced different bytes than the first write' % (i + 2, hist))
        else:
            _query(doc, r)
    if wbytes(doc) != ref:
        return ('not-idempotent', 'a later write produced different bytes than the first one (history %s)' % hist)
    df = snap.diff(after, deep(doc))
    if df:
        return ('model-changed', 'repeated saves/queries changed the in-memory model: %s' % '; '.join(df[:3]))
    return None


def _drop_matrices(s):
    def walk(n):
        if isinstance(n, dict):
            n.pop('matrix', None)
            for v in n.values():
                walk(v)
        elif isinstance(n, list):
            for v in n:
                walk(v)
    walk(s)


def _query(doc, r):
    k = r.choice(['objects', 'str', 'prims', 'len'])
    if k == 'objects' and doc.scene is not None:
        for kind in ('geometry', 'light', 'camera'):
            for o in doc.scene.objects(kind):
                if kind == 'geometry':
                    for p in o.primitives():
                        list(p.shapes()) if len(p) and type(p).__name__ != 'BoundLineSet' else None
    elif k == 'str':
        str(doc)
        [str(g) for g in doc.geometries]
    elif k == 'prims':
        for g in doc.geometries:
            for p in g.primitives:
                p.getInputList()
                if len(p):
                    p[0]
    else:
        [len(p) for g in doc.geometries for p in g.primitives]


def check_unmodelled(rng, kind):
    import collada
    data, inj = base_bytes(rng, kind)
    if not inj:
        return None
    try:
        doc = collada.Collada(io.BytesIO(data))
    except Exception as e:
        core.note_skip('c03:unmodelled-load', e)
        return None
    out = wbytes(doc)
    root = ET.fromstring(out)
    managed = ('asset', 'scene', 'library_geometries', 'library_controllers', 'library_lights', 'library_cameras', 'library_images',
               'library_effects', 'library_materials', 'library_nodes', 'library_visual_scenes')
    def unmanaged(r):
        out = [canon(c) for c in r if c.tag.split('}')[-1] not in managed]
        for sc in r:
            if sc.tag.split('}')[-1] == 'scene':
                out += [canon(c) for c in sc if c.tag.split('}')[-1] != 'instance_visual_scene']
        return out
    got = unmanaged(root)
    orig = unmanaged(ET.fromstring(data))
    if got != orig:
        return ('unmodelled-lost', 'document-level content the library does not model changed across load+save in %s: %d elements before, %d after'
                % (kind, len(orig), len(got)))
    if wbytes(collada.Collada(io.BytesIO(out))) != out and False:
        pass
    return None


def build_pair(seed):
    """two identical documents (same seed) with at least one camera, one light, one material and one scene"""
    docs = []
    for _ in range(2):
        gen = modelgen.Gen(seed, dict(need_geom=True, cameras=2, lights=2))
        d = gen.build()
        from collada import camera, scene
        if not d.cameras:
            d.cameras.append(camera.PerspectiveCamera('camX', 0.1, 10.0, xfov=30.0))
        if len(d.scenes) < 1:
            d.scenes.append(scene.Scene('sceneX', [scene.Node('nodeX')]))
        docs.append(d)
    return docs


def strip_scene_element(doc):
    """the same document as loaded from a file that has no <scene> element"""
    import collada
    import re
    data = wbytes(doc)
    data = re.sub(rb'<scene>.*?</scene>|<scene\s*/>', b'', data, flags=re.S)
    return collada.Collada(io.BytesIO(data))


STRINGS = ['', '', ' ', '\n  ', '\t', '\r\n', 'x', ' x ', '\u00a0', '\u2003 ', 'a\nb', '\n\u00a0\n', '0.5 1', '\x0b'.replace('\x0b', ' \t ')]


def indent_case(rng):
    """a random element tree with white-space, non-white-space and not-quite-white-space text and tails: (tokens, root element)"""
    toks = []

    def enc(s):
        return '-' if not s else '.'.join(str(ord(c)) for c in s)

    def mk(depth):
        el = ET.Element('e%d' % len(toks))
        el.text = rng.choice(STRINGS) or None if rng.random() < 0.8 else None
        el.tail = rng.choice(STRINGS) or None if rng.random() < 0.8 else None
        pos = len(toks)
        toks.append(None)
        nk = rng.choice([0, 0, 1, 2, 3]) if depth < 4 else 0
        for _ in range(nk):
            el.append(mk(depth + 1))
        toks[pos] = '%s|%s|%d' % (enc(el.text or ''), enc(el.tail or ''), nk)
        return el
    root = mk(0)
    return toks, root


def indent_strings(root):
    out = []

    def walk(e):
        out.append(e.text or '')
        for c in e:
            walk(c)
        out.append(e.tail or '')
    walk(root)
    return ' '.join('-' if not s else '.'.join(str(ord(c)) for c in s) for s in out)


def renamespace(doc, uri):
    """the same document as loaded from a file in another namespace"""
    import collada
    return collada.Collada(io.BytesIO(wbytes(doc).replace(NS14.encode(), uri.encode())))


def check_failure(seed, mode, dest):
    """(C)/(D): returns None or (sig, what). mode in scene|scene-noelem|camera|sink"""
    import collada
    from collada import scene
    r = random.Random('c03f/%s' % seed)
    doc, twin = build_pair(seed)
    noelem = mode == 'scene-noelem'
    if noelem:
        mode = 'scene'
        doc, twin = strip_scene_element(doc), strip_scene_element(twin)
    uri = None
    if random.Random('c03ns/%s' % seed).random() < 0.4:
        uri = random.Random('c03ns/%s' % seed).choice([NS15, 'urn:x-c03:collada'])
        doc, twin = renamespace(doc, uri), renamespace(twin, uri)
    tmp = tempfile.mkdtemp(prefix='c03_')
    try:
        path = os.path.join(tmp, 'out.dae')
        existed = r.random() < 0.5
        if existed:
            with open(path, 'wb') as f:
                f.write(b'previous content')
        before = deep(doc)
        # another document of the process, in the default namespace, written before the failure …
        bystander = build_pair(seed + 1)[0]
        by_ref = wbytes(bystander)
        if mode == 'scene':
            good = doc.scene
            doc.scene = scene.Scene('stranger', [])
            expect = 'DaeBrokenRefError'
        elif mode == 'camera':
            cam = r.choice(list(doc.cameras))
            a, b = ('xfov', 'yfov') if hasattr(cam, 'xfov') else ('xmag', 'ymag')
            saved = (getattr(cam, a), getattr(cam, b), cam.aspect_ratio)
            if r.random() < 0.5:
                setattr(cam, a, None); setattr(cam, b, None); cam.aspect_ratio = r.choice([None, 1.5])
            else:
                setattr(cam, a, 1.0); setattr(cam, b, 2.0); cam.aspect_ratio = 1.5
            expect = 'DaeMalformedError'
        if mode in ('scene', 'camera'):
            bad = deep(doc)
            try:
                doc.write(path if dest == 'path' else io.BytesIO())
                return ('no-error:' + mode, 'write succeeded although the %s is invalid' % mode)
            except Exception as e:
                if type(e).__name__ != expect:
                    return ('wrong-error:' + mode, 'failed save raised %s instead of %s' % (type(e).__name__, expect))
            if dest == 'path':
                if existed:
                    if not os.path.exists(path) or open(path, 'rb').read() != b'previous content':
                        return ('dest-modified:' + mode, 'a failed save (%s) modified the existing destination file' % mode)
                elif os.path.exists(path):
                    return ('dest-created:' + mode, 'a failed save (%s) created the destination file' % mode)
            df = snap.diff(_nom(bad), _nom(deep(doc)))
            if df:
                return ('model-changed-on-failure:' + mode, 'failed save changed the model: %s' % '; '.join(df[:3]))
            # repair
            if mode == 'scene':
                if noelem or r.random() < 0.3:
                    good = None if r.random() < 0.6 else good      # the repair may also be "no default scene"
                    twin.scene = None if good is None else twin.scene
                doc.scene = good
            else:
                setattr(cam, a, saved[0]); setattr(cam, b, saved[1]); cam.aspect_ratio = saved[2]
        else:
            total = len(wbytes(twin))
            twin = build_pair(seed)[1]
            if uri:
                twin = renamespace(twin, uri)
            k = r.choice([0, 1, 2, total - 1, total - 2, r.randrange(total), r.randrange(total), r.randrange(min(total, 200))])
            try:
                doc.write(FailingSink(k))
                return ('sink-no-error', 'a sink that raises after %d bytes did not make write() raise' % k)
            except IOError:
                pass
        # … and after it: the same bytes (a failed write leaves nothing behind in the process either)
        try:
            by_out = wbytes(bystander)
        except Exception as e:
            return ('after-failure-raises:bystander', 'after a failed write (%s) of one document the write of ANOTHER document raises %s' % (mode, type(e).__name__))
        if by_out != by_ref:
            k = next((i for i in range(min(len(by_out), len(by_ref))) if by_out[i] != by_ref[i]), min(len(by_out), len(by_ref)))
            return ('after-failure-differs:bystander', 'after a failed write (%s%s) of one document ANOTHER document of the process is written differently than before: …%r… instead of …%r…'
                    % (mode, ', namespace %s' % uri if uri else '', by_out[max(0, k - 30):k + 40], by_ref[max(0, k - 30):k + 40]))
        try:
            out = wbytes(doc)
        except Exception as e:
            return ('after-failure-raises:' + mode, 'after a failed write (%s) and the repair of the model a later write raises %s: %s' % (mode, type(e).__name__, str(e)[:120]))
        ref = wbytes(twin)
        if out != ref:
            return ('after-failure-differs:' + mode, 'after a failed write (%s) a later write differs from a run that never failed (%d vs %d bytes)'
                    % (mode, len(out), len(ref)))
        if dest == 'path' and mode != 'sink':
            doc.write(path)
            if open(path, 'rb').read() != ref:
                return ('path-write-differs', 'writing to a path after the repair gives other bytes than writing to a file object')
    finally:
        shutil.rmtree(tmp, ignore_errors=True)
    return None


def _nom(s):
    s = copy.deepcopy(s)
    _drop_matrices(s)
    return s


def prefix_case(seed):
    """(E) correspondence: pending removals in every library + an invalid camera; after the failed save compare the
    children of every library element with savePrefix over the generated library order"""
    import collada
    from translators import write_order
    r = random.Random('c03p/%s' % seed)
    doc = build_pair(seed)[0]
    # load-cycle so that every object has a library element to be removed from
    doc = collada.Collada(io.BytesIO(wbytes(doc)))
    _, _, libs = write_order.extract(core.REPO)
    attr = {'library_geometries': 'geometries', 'library_controllers': 'controllers', 'library_lights': 'lights',
            'library_cameras': 'cameras', 'library_images': 'images', 'library_effects': 'effects', 'library_materials': 'materials',
            'library_nodes': 'nodes', 'library_visual_scenes': 'scenes'}
    for name in libs:
        # a library the source synchronises that this check has no table entry for: follow the naming rule of the others
        attr.setdefault(name, name.replace('library_', '').replace('visual_scenes', 'scenes'))
    libs = [name for name in libs if hasattr(doc, attr[name])]
    ref = editgen.referenced(doc)
    root = doc.xmlnode.getroot()
    lab = c02.Labels()
    # pending edits: drop one unreferenced object per library where possible (keep the lists non-empty)
    for name in libs:
        lst = getattr(doc, attr[name])
        cands = [o for o in lst if id(o) not in ref.get(attr[name], set())]
        if len(lst) > 1 and cands and name != 'library_cameras':
            lst.remove(r.choice(cands))
    cam = r.choice(list(doc.cameras))
    a, b = ('xfov', 'yfov') if hasattr(cam, 'xfov') else ('xmag', 'ymag')
    setattr(cam, a, None); setattr(cam, b, None)
    present = [(name, root.find(doc.tag(name))) for name in libs]
    present = [(n, e) for n, e in present if e is not None and len(getattr(doc, attr[n]))]
    olds = [[lab(c) for c in e] for n, e in present]
    wanted_before = [[lab(o.xmlnode) for o in getattr(doc, attr[n])] for n, e in present]
    k = [n for n, e in present].index('library_cameras')
    try:
        doc.save()
        return None
    except Exception:
        pass
    # elements may have been recreated by save(): label what the objects hold now for the reconciled prefix
    wanted = []
    for i, (n, e) in enumerate(present):
        wanted.append([lab(o.xmlnode) for o in getattr(doc, attr[n])] if i < k else wanted_before[i])
    line = 'save %d' % k + ''.join(' ;; * ; %s ; %s ; _' % (' '.join(map(str, w)), ' '.join(map(str, o))) for w, o in zip(wanted, olds))
    actual = ' | '.join(' '.join(str(lab(c)) for c in e) for n, e in present)
    return line, actual


def run(ctx):
    ctx.rule = ('(A) documents (constructed / write-reloaded / shipped corpus) after 0-8 random edits: first write vs any mix of further '
                'saves, writes and read-only queries, deep model snapshot before/after; (B) documents with injected unmodelled top-level '
                'content (animation library, physics library, animation clips, foreign-namespace extra) through load+write; '
                '(C) failed saves (default scene not among scenes, invalid camera parameter combination) to a path (existing or not) or a '
                'file object, then repair and compare with an identical twin that never failed; (D) a sink raising after k bytes for k at '
                'both ends and at random offsets; (E) per-library children after a part-way failed save vs Pyc.SaveM.savePrefix. '
                'non-trivial: the case performed at least one save on a document with at least one library object; distinct by (kind, seed, parameters).')
    reported = set()

    def report(kind, res, rep):
        if res is None:
            return
        sig, what = res
        if sig in reported:
            return
        reported.add(sig)
        ctx.violation('c03:' + sig, what, rep)
    # the pretty printer against Pyc.Indent.indent (content_indent / indent_idem are theorems about that function)
    from collada import xmlutil
    il, iw, roots = [], [], []
    for i in range(ctx.n(400, 10000)):
        toks, root = indent_case(ctx.rng)
        il.append('indent ' + ' '.join(toks))
        before = [c for c in ET.tostring(root)]
        xmlutil.indent(root)
        iw.append(indent_strings(root))
        once = ET.tostring(root)
        xmlutil.indent(root)
        if ET.tostring(root) != once:
            report('F', ('indent-not-idempotent', 'indent() applied twice differs from indent() applied once on %r' % il[-1][:200]), dict(kind='indent', line=il[-1]))
    if ctx.lean_ok:
        for l, w, m in zip(il, iw, ctx.driver('C03b', il)):
            ctx.count('kernel:indent')
            if m != w:
                ctx.violation('corr:indent', 'collada.xmlutil.indent and Pyc.Indent.indent disagree on %r: model %r, implementation %r' % (l[:200], m[:200], w[:200]),
                              dict(kind='indent', line=l), found_input=False)
                break
    # the root element through save(): Pyc.RootSave.saveRoot (Props/C03c: saveRoot_idem, saveRoot_counts)
    rl, r1, rk = [], [], []
    for i in range(ctx.n(150, 4000)):
        key = 'c03root/%s/%d' % (ctx.rng.randrange(10 ** 9), i)
        try:
            l, one, two = root_case(random.Random(key))
        except Exception as e:
            core.note_skip('c03:root-case', e)
            continue
        ctx.count('kernel:root')
        ctx.case(dict(check='root', line=l[:160]))
        if one != two:
            report('A', ('root-not-idempotent', 'the children of <COLLADA> after one save() are %r, after a second one %r (%s)' % (one, two, l)), dict(kind='root', key=key))
        rl.append(l); r1.append(one); rk.append(key)
    if ctx.lean_ok and rl:
        for l, one, m, key in zip(rl, r1, ctx.driver('C03c', rl), rk):
            if m != one:
                ctx.violation('corr:root', 'Collada.save and Pyc.RootSave.saveRoot disagree on %r: model %r, implementation %r' % (l, m, one),
                              dict(kind='root', key=key), found_input=False)
                break
    bases = ['constructed', 'reloaded', 'docgen', 'docgen'] + c02.CORPUS
    for i in range(ctx.n(60, 2500)):
        kind = bases[i % len(bases)] if i % 3 == 2 else ('constructed' if i % 3 == 0 else 'reloaded')
        seed = ctx.rng.randrange(10 ** 9)
        nops = ctx.rng.choice([0, 0, 0] + list(range(1, 9)))
        ns = ctx.rng.randint(1, 6)
        ctx.case(dict(check='history', base=kind, seed=seed, nops=nops, nsaves=ns))
        ctx.count('A:history')
        report('A', check_history(kind, seed, nops, ns, True), dict(kind='history', base=kind, seed=seed, nops=nops, nsaves=ns))
    for i in range(ctx.n(30, 1200)):
        kind = (['generated'] + c02.CORPUS)[i % (1 + len(c02.CORPUS))] if i % 2 else 'generated'
        s = ctx.rng.randrange(10 ** 9)
        ctx.case(dict(check='unmodelled', base=kind, seed=s))
        ctx.count('B:unmodelled')
        report('B', check_unmodelled(random.Random(s), kind), dict(kind='unmodelled', base=kind, seed=s))
    for i in range(ctx.n(45, 2500)):
        seed = ctx.rng.randrange(10 ** 9)
        mode = ['scene', 'camera', 'sink', 'scene-noelem'][i % 4]
        dest = 'path' if i % 2 else 'file'
        ctx.case(dict(check='failure', seed=seed, mode=mode, dest=dest))
        ctx.count('CD:' + mode + ':' + dest)
        report('C', check_failure(seed, mode, dest), dict(kind='failure', seed=seed, mode=mode, dest=dest))
    # thorough: every byte offset of a few documents
    if ctx.thorough:
        for j in range(20):
            seed = ctx.rng.randrange(10 ** 9)
            doc, twin = build_pair(seed)
            ref = wbytes(twin)
            for k in range(len(ref)):
                ctx.count('D:every-offset')
                try:
                    doc.write(FailingSink(k))
                    report('D', ('sink-no-error', 'sink failing after %d bytes did not raise' % k), dict(kind='sink', seed=seed, k=k))
                except IOError:
                    pass
                if wbytes(doc) != ref:
                    report('D', ('after-failure-differs:sink', 'after a sink failure at byte %d a later write differs' % k), dict(kind='sink', seed=seed, k=k))
                    break
            ctx.case(dict(check='sink-all-offsets', seed=seed, nbytes=len(ref)))
    # (E) correspondence
    lines, actuals, seeds = [], [], []
    for i in range(ctx.n(25, 600)):
        seed = ctx.rng.randrange(10 ** 9)
        pc = prefix_case(seed)
        if pc:
            lines.append(pc[0]); actuals.append(pc[1]); seeds.append(seed)
            ctx.case(dict(check='prefix', seed=seed, line=pc[0]))
            ctx.count('E:prefix')
    if ctx.lean_ok and lines:
        for l, a, m, s in zip(lines, actuals, ctx.driver('C03', lines), seeds):
            if a != m and 'corr:prefix' not in reported and not any(v['found_input'] for v in ctx.violations):
                reported.add('corr:prefix')
                ctx.violation('corr:prefix', 'library children after a part-way failed save are %r, Pyc.SaveM.savePrefix gives %r (%r); '
                              'the byte-level oracle found no failing input' % (a, m, l), dict(kind='prefix', seed=s), found_input=False)
    ctx.assumptions.append('twin documents are rebuilt from the same seed through the same constructor calls')


def replay(ctx, rep):
    k = rep.get('kind')
    if k == 'history':
        res = check_history(rep['base'], rep['seed'], rep['nops'], rep['nsaves'], True)
    elif k == 'unmodelled':
        res = check_unmodelled(random.Random(rep['seed']), rep['base'])
    elif k == 'failure':
        res = check_failure(rep['seed'], rep['mode'], rep['dest'])
    elif k == 'root':
        l, one, two = root_case(random.Random(rep['key']))
        res = ('root-not-idempotent', 'the children of <COLLADA> after one save() are %r, after a second one %r (%s)' % (one, two, l)) if one != two else None
    else:
        res = None
    if res:
        print('  ' + res[1])
    return res is not None
