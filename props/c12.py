"""C12 — Scene traversal yields every instance once, correctly transformed and bound.

Correspondence: random scene graphs (nested nodes, library nodes instantiated several times and
nested through instance_node / NodeNode, the same Node object under several parents, forward and
backward references between scene roots), integer matrices, all primitive kinds, binding tables
with duplicate / unbound / surplus symbols, all light and camera kinds, skins. Each graph is built
through pycollada's constructors or rendered to COLLADA XML (by this file, not by pycollada's
writer) and loaded; list(scene.objects(kind)) for the four kinds is canonicalised and diffed
against Pyc.Scene.sceneObjects + bind* (lean/drv/C12.lean).
Direct oracle on the implementation: path enumeration and right-to-left integer products,
R.v+t / R.n with Python ints, last-binding-wins lookup — independent of the Lean model.
"""
import copy
import io
import json

PID = 'C12'
META = dict(
    level_text=('Proof: Pyc/Props/C12.lean proves for every scene tree (any depth and fan-out, shared nodes used any number '
                'of times and nested) and any matrix monoid that Scene.objects yields exactly one entry per root-to-instance '
                'path in document order with the ordered product of the node matrices on the path (objects_eq_paths, '
                'count_paths, root_uses_own_matrix), and over any commutative ring that bound vertices are R.v+t, bound '
                'normals R.n, indices untouched, light/camera poses the images of the origin and of -Z, and the material the '
                'last binding of the symbol or None. The model is tied to collada/scene.py and the Bound* constructors on '
                'every run by an exact differential check on constructed and XML-loaded graphs; the property is also '
                'evaluated directly on the real objects, which is what yields replays.'),
    level_note=('Trusted: Lean kernel; axioms propext/Quot.sound/Classical.choice only; the hand-written model Pyc/Model/Scene.lean; '
                'the graph generator, XML renderer and canonicaliser in props/c12.py. Float rounding is outside the model: the '
                'correspondence uses integer matrices and coordinates whose every partial sum stays below 2^24, so float32 '
                'arithmetic is exact and the comparison is exact. Cyclic instance_node graphs are outside the quantifier.'),
    technique='Lean 4 proof by mutual structural induction over the scene tree + ring identities (grind) + exact differential check against Scene.objects',
)
LEAN_MODULES = ['Pyc.Model.Scene']

KINDS = ['geometry', 'light', 'camera', 'controller']
LKINDS = ['point', 'spot', 'directional', 'ambient']
PRIM_SYMS = ['sa', 'sb', 'sc', None, 'm0', 'm1']      # a symbol may look like a material id: it is still only bound through the table
BIND_SYMS = ['sa', 'sa', 'sb', 'sb', 'sc', 'zz', 'yy']
LIMIT = 1 << 23          # every partial sum of every float32 operation stays below this
MAX_OBJS = 120           # yields per case over all kinds
NS = 'http://www.collada.org/2005/11/COLLADASchema'
ID16 = [1, 0, 0, 0, 0, 1, 0, 0, 0, 0, 1, 0, 0, 0, 0, 1]


# ----------------------------------------------------------------------------- integer matrices

def mmul(a, b):
    return [sum(a[4 * i + k] * b[4 * k + j] for k in range(4)) for i in range(4) for j in range(4)]


def mabs(a):
    return [abs(x) for x in a]


def apply_point(m, v):
    return [m[4 * i] * v[0] + m[4 * i + 1] * v[1] + m[4 * i + 2] * v[2] + m[4 * i + 3] for i in range(3)]


def apply_dir(m, v):
    return [m[4 * i] * v[0] + m[4 * i + 1] * v[1] + m[4 * i + 2] * v[2] for i in range(3)]


def gen_matrix(rng, dense):
    """a node's transform: None (no transform element at all) or 16 integers"""
    r = rng.random()
    if r < 0.12:
        return None
    if r < 0.12 + dense * 0.5:      # full 4x4, last row arbitrary: binding must use [:3,:3] and [:3,3] only
        return [rng.randint(-3, 3) for _ in range(16)]
    if r < 0.12 + dense:            # affine dense
        return [rng.randint(-3, 3) for _ in range(12)] + [0, 0, 0, 1]
    k = rng.choice(['T', 'T', 'P', 'D', 'PT'])
    m = list(ID16)
    if 'P' in k:
        perm = [0, 1, 2]
        rng.shuffle(perm)
        m = [0] * 16
        for i in range(3):
            m[4 * i + perm[i]] = rng.choice([1, -1])
        m[15] = 1
    if k == 'D':
        for i in range(3):
            m[5 * i] = rng.choice([-2, -1, 1, 2, 3])
    if 'T' in k:
        for i in range(3):
            m[4 * i + 3] = rng.randint(-3, 3)
    return m


# ----------------------------------------------------------------------------- case generator
# node := ['n', mat16|None, [node...]] | ['ig', g, [[sym, matidx]...]] | ['ic', c, binds] | ['il', l] | ['ik', k]
#       | ['r', i]  (instance_node / NodeNode of shared node i)  | ['s', i]  (shared node i itself placed here)

def gen_binds(rng, nmat):
    n = rng.choice([0, 1, 1, 2, 2, 3, 4, 5])
    return [[rng.choice(BIND_SYMS), rng.randrange(nmat)] for _ in range(n)]


def gen_prim(rng, nv, nn, xml):
    kinds = ['triangles', 'triangles', 'polylist', 'polygons', 'lines']
    if xml:
        kinds += ['tristrips', 'trifans']
    kind = rng.choice(kinds)
    use_n = nn > 0 and rng.random() < 0.65

    def corner():
        return [rng.randrange(nv)] + ([rng.randrange(nn)] if use_n else [])
    if kind == 'triangles':
        groups = [[corner() for _ in range(3)] for _ in range(rng.randint(1, 3))]
    elif kind == 'lines':
        groups = [[corner() for _ in range(2)] for _ in range(rng.randint(1, 3))]
    elif kind in ('polylist', 'polygons'):
        groups = [[corner() for _ in range(rng.randint(3, 5))] for _ in range(rng.randint(1, 3))]
    else:
        groups = [[corner() for _ in range(rng.randint(3, 6))] for _ in range(rng.randint(1, 2))]
    return dict(kind=kind, sym=rng.choice(PRIM_SYMS), normals=use_n, groups=groups)


def gen_geom(rng, xml):
    nv = rng.randint(2, 5)
    nn = rng.choice([0, 1, 2, 3, 4])
    verts = [[rng.randint(-4, 4) for _ in range(3)] for _ in range(nv)]
    norms = [[rng.randint(-2, 2) for _ in range(3)] for _ in range(nn)]
    prims = [gen_prim(rng, nv, nn, xml) for _ in range(rng.choice([1, 1, 2, 2, 3]))]
    return dict(verts=verts, norms=norms, prims=prims)


class TreeGen(object):
    def __init__(self, rng, case, dense, budget, deep=False):
        self.rng = rng
        self.case = case
        self.dense = dense
        self.budget = budget   # nodes still allowed
        self.deep = deep       # narrow and deep instead of wide and shallow

    def leaf(self, refs):
        rng, c = self.rng, self.case
        opts = ['ig', 'ig', 'ig']
        if c['lights']:
            opts += ['il', 'il']
        if c['ncams']:
            opts += ['ik']
        if c['ctrls']:
            opts += ['ic']
        if refs:
            opts += ['r', 'r', 'r'] + (['s'] if c['mode'] == 'ctor' else [])
        k = rng.choice(opts)
        if k == 'ig':
            return ['ig', rng.randrange(len(c['geoms'])), gen_binds(rng, c['nmat'])]
        if k == 'ic':
            return ['ic', rng.randrange(len(c['ctrls'])), gen_binds(rng, c['nmat'])]
        if k == 'il':
            return ['il', rng.randrange(len(c['lights']))]
        if k == 'ik':
            return ['ik', rng.randrange(c['ncams'])]
        return [k, rng.choice(refs)]

    def node(self, depth, refs):
        """a Node of height <= depth"""
        rng = self.rng
        self.budget -= 1
        if self.deep and depth > 1:
            nch = rng.choice([1, 1, 2, 2, 3])
        else:
            nch = rng.choice([0, 1, 1, 2, 2, 3, 4]) if depth > 1 else rng.choice([0, 1, 2, 3, 4])
        children = []
        for _ in range(nch):
            if depth > 1 and self.budget > 0 and rng.random() < (0.8 if self.deep else 0.45):
                children.append(self.node(depth - 1, refs))
            else:
                children.append(self.leaf(refs))
        return ['n', gen_matrix(rng, self.dense), children]


def gen_case(rng, mode, dense=0.35):
    xml = mode == 'xml'
    c = dict(mode=mode)
    c['geoms'] = [gen_geom(rng, xml) for _ in range(rng.randint(1, 3))]
    c['nmat'] = rng.randint(1, 3)
    c['lights'] = [rng.choice(LKINDS) for _ in range(rng.choice([0, 1, 2, 3, 4]))]
    c['ncams'] = rng.choice([0, 1, 2])
    c['cams'] = [rng.choice(['perspective', 'orthographic']) for _ in range(c['ncams'])]
    c['ctrls'] = []
    if xml:
        for _ in range(rng.choice([0, 0, 1, 2])):
            c['ctrls'].append(dict(geom=rng.randrange(len(c['geoms'])),
                                   bsm=gen_matrix(rng, dense) if rng.random() < 0.8 else None))
    deep = rng.random() < 0.3
    tg = TreeGen(rng, c, dense, rng.randint(4, 22), deep)
    nshared = rng.choice([0, 1, 1, 2, 2, 3, 4])
    shared = []
    for i in range(nshared):
        shared.append(tg.node(rng.randint(1, 3), list(range(i))))
    c['shared'] = shared
    nroots = rng.choice([1, 1, 2, 2, 3])
    roots = []
    if xml:
        # some shared nodes live in the visual scene as roots (document position chosen below);
        # those may only mention library nodes, and only roots may mention them (see module docstring)
        rooted = [i for i in range(nshared) if rng.random() < 0.35]
        lib = [i for i in range(nshared) if i not in rooted]
        for i in rooted:
            shared[i] = TreeGen(rng, c, dense, 6).node(rng.randint(1, 2), [j for j in lib if j < i])
        for i in lib:
            shared[i] = _restrict(shared[i], set(lib), rng, tg)
        for _ in range(nroots):
            roots.append(tg.node(rng.randint(3, 6) if deep else rng.randint(1, 4), list(range(nshared))))
        for i in rooted:
            roots.insert(rng.randint(0, len(roots)), ['s', i])
    else:
        for _ in range(nroots):
            r = rng.random()
            if r < 0.08:
                roots.append(tg.leaf(list(range(nshared))))      # an instance / NodeNode directly in Scene.nodes
            else:
                roots.append(tg.node(rng.randint(3, 6) if deep else rng.randint(1, 4), list(range(nshared))))
    c['roots'] = roots
    return c


def _restrict(node, allowed, rng, tg):
    """library nodes can only reach other library nodes"""
    if node[0] == 'n':
        return ['n', node[1], [_restrict(ch, allowed, rng, tg) for ch in node[2]]]
    if node[0] in ('r', 's') and node[1] not in allowed:
        return tg.leaf([])
    return node


# ----------------------------------------------------------------------------- ground truth (oracle side)

def enum_paths(case, kind):
    """document-order list of (list of node matrices on the path, leaf) — written independently of the Lean model"""
    out = []
    tag = {'geometry': 'ig', 'light': 'il', 'camera': 'ik', 'controller': 'ic'}[kind]

    def walk(node, mats):
        if node[0] == 'n':
            ms = mats + [node[1] if node[1] is not None else ID16]
            for ch in node[2]:
                walk(ch, ms)
        elif node[0] in ('r', 's'):
            walk(case['shared'][node[1]], mats)
        elif node[0] == tag:
            out.append((mats, node))
    for r in case['roots']:
        walk(r, [])
    return out


def path_product(mats):
    """right-to-left product (the code multiplies left-to-right)"""
    m = list(ID16)
    for x in reversed(mats):
        m = mmul(x, m)
    return m


def exact_ok(case):
    """every partial sum the float32 code can form stays an exactly representable integer;
    also bounds the size of the case"""
    total = 0
    for kind in KINDS:
        ps = enum_paths(case, kind)
        total += len(ps)
        if total > MAX_OBJS:
            return False
        for mats, leaf in ps:
            if len(mats) > 14:
                return False
            a = list(ID16)
            for x in mats:
                a = mmul(a, mabs(x))
            if kind == 'controller':
                bsm = case['ctrls'][leaf[1]]['bsm'] or ID16
                a = mmul(a, mabs(bsm))
            if max(a) >= LIMIT:
                return False
            if kind in ('geometry', 'controller'):
                g = case['geoms'][leaf[1] if kind == 'geometry' else case['ctrls'][leaf[1]]['geom']]
                for v in g['verts'] + g['norms']:
                    if max(apply_point(a, [abs(t) for t in v])) >= LIMIT:
                        return False
    return True


def gen_valid_case(rng, mode):
    dense = rng.choice([0.15, 0.35, 0.35, 0.6])
    for _ in range(60):
        c = gen_case(rng, mode, dense)
        if exact_ok(c):
            return c
        dense *= 0.7
    raise AssertionError('generator cannot satisfy the exactness bound')


def expected_material(binds, sym):
    hit = None
    for s, m in binds:
        if sym is not None and s == sym:
            hit = m
    return hit


# ----------------------------------------------------------------------------- building the real objects

def flat_index(prim):
    return [i for grp in prim['groups'] for corner in grp for i in corner]


def build_ctor(case):
    import numpy
    import collada
    from collada import source, geometry, material, scene, light, camera
    doc = collada.Collada()
    fx = material.Effect('fx', [], 'phong')
    doc.effects.append(fx)
    mats = []
    for i in range(case['nmat']):
        m = material.Material('m%d' % i, 'm%d' % i, fx)
        doc.materials.append(m)
        mats.append(m)
    geoms = []
    for gi, g in enumerate(case['geoms']):
        gid = 'g%d' % gi
        srcs = [source.FloatSource(gid + '-pos', numpy.array(g['verts'], dtype=numpy.float32).ravel(), ('X', 'Y', 'Z'))]
        if g['norms']:
            srcs.append(source.FloatSource(gid + '-nrm', numpy.array(g['norms'], dtype=numpy.float32).ravel(), ('X', 'Y', 'Z')))
        geom = geometry.Geometry(doc, gid, gid, srcs)
        for p in g['prims']:
            il = source.InputList()
            il.addInput(0, 'VERTEX', '#' + gid + '-pos')
            if p['normals']:
                il.addInput(1, 'NORMAL', '#' + gid + '-nrm')
            idx = numpy.array(flat_index(p), dtype=numpy.int32)
            if p['kind'] == 'triangles':
                prim = geom.createTriangleSet(idx, il, p['sym'])
            elif p['kind'] == 'lines':
                prim = geom.createLineSet(idx, il, p['sym'])
            elif p['kind'] == 'polylist':
                prim = geom.createPolylist(idx, numpy.array([len(grp) for grp in p['groups']], dtype=numpy.int32), il, p['sym'])
            elif p['kind'] == 'polygons':
                prim = geom.createPolygons([numpy.array([i for corner in grp for i in corner], dtype=numpy.int32)
                                            for grp in p['groups']], il, p['sym'])
            else:
                raise AssertionError(p['kind'])
            geom.primitives.append(prim)
        doc.geometries.append(geom)
        geoms.append(geom)
    lights = []
    for i, k in enumerate(case['lights']):
        cls = dict(point=light.PointLight, spot=light.SpotLight, directional=light.DirectionalLight, ambient=light.AmbientLight)[k]
        lights.append(cls('l%d' % i, (1, 1, 1)))
        doc.lights.append(lights[-1])
    cams = []
    for i, k in enumerate(case['cams']):
        if k == 'perspective':
            cams.append(camera.PerspectiveCamera('k%d' % i, 1.0, 100.0, xfov=45.0))
        else:
            cams.append(camera.OrthographicCamera('k%d' % i, 1.0, 100.0, xmag=2.0))
        doc.cameras.append(cams[-1])
    counter = [0]
    sharedobjs = {}

    def mk(node):
        k = node[0]
        if k == 'n':
            counter[0] += 1
            tr = [] if node[1] is None else [scene.MatrixTransform(numpy.array(node[1], dtype=numpy.float32))]
            return scene.Node('n%d' % counter[0], children=[mk(ch) for ch in node[2]], transforms=tr)
        if k == 'ig':
            if not node[2]:        # an instance without bindings is usually made without the argument
                return scene.GeometryNode(geoms[node[1]])
            return scene.GeometryNode(geoms[node[1]], [scene.MaterialNode(s, mats[m], []) for s, m in node[2]])
        if k == 'il':
            return scene.LightNode(lights[node[1]])
        if k == 'ik':
            return scene.CameraNode(cams[node[1]])
        if k == 'r':
            return scene.NodeNode(sharedobjs[node[1]])
        if k == 's':
            return sharedobjs[node[1]]
        raise AssertionError(k)
    for i, s in enumerate(case['shared']):
        sharedobjs[i] = mk(s)
        sharedobjs[i].id = 'N%d' % i
        doc.nodes.append(sharedobjs[i])
    sc = scene.Scene('vs', [mk(r) for r in case['roots']])
    doc.scenes.append(sc)
    doc.scene = sc
    return doc


def fnum(rng_state, x):
    """integer token in one of several spellings (all exact); deterministic per case so replays re-render the same bytes"""
    r = rng_state[0] = (rng_state[0] * 1103515245 + 12345) & 0x7fffffff
    r = (r >> 8) % 10
    if r == 0:
        return '%d.0' % x
    if r == 1:
        return '%de0' % x
    if r == 2:
        return '%d.00' % x
    return '%d' % x


def render_xml(case):
    st = [sum(len(g['verts']) for g in case['geoms']) * 7919 + 17]
    f = lambda x: fnum(st, x)
    o = ['<?xml version="1.0" encoding="utf-8"?>',
         '<COLLADA xmlns="%s" version="1.4.1">' % NS,
         '<asset><created>2020-01-01T00:00:00</created><modified>2020-01-01T00:00:00</modified><up_axis>Y_UP</up_axis></asset>']
    if case['cams']:
        o.append('<library_cameras>')
        for i, k in enumerate(case['cams']):
            body = ('<perspective><xfov>45</xfov><znear>1</znear><zfar>100</zfar></perspective>' if k == 'perspective'
                    else '<orthographic><xmag>2</xmag><znear>1</znear><zfar>100</zfar></orthographic>')
            o.append('<camera id="k%d"><optics><technique_common>%s</technique_common></optics></camera>' % (i, body))
        o.append('</library_cameras>')
    if case['lights']:
        o.append('<library_lights>')
        for i, k in enumerate(case['lights']):
            o.append('<light id="l%d"><technique_common><%s><color>1 1 1</color></%s></technique_common></light>' % (i, k, k))
        o.append('</library_lights>')
    o.append('<library_effects><effect id="fx"><profile_COMMON><technique sid="common"><phong/></technique></profile_COMMON></effect></library_effects>')
    o.append('<library_materials>')
    for i in range(case['nmat']):
        o.append('<material id="m%d" name="m%d"><instance_effect url="#fx"/></material>' % (i, i))
    o.append('</library_materials>')
    o.append('<library_geometries>')
    for gi, g in enumerate(case['geoms']):
        gid = 'g%d' % gi
        o.append('<geometry id="%s" name="%s"><mesh>' % (gid, gid))
        for suffix, data in (('pos', g['verts']), ('nrm', g['norms'])):
            if not data:
                continue
            o.append('<source id="%s-%s"><float_array id="%s-%s-a" count="%d">%s</float_array><technique_common>'
                     '<accessor source="#%s-%s-a" count="%d" stride="3"><param name="X" type="float"/><param name="Y" type="float"/>'
                     '<param name="Z" type="float"/></accessor></technique_common></source>'
                     % (gid, suffix, gid, suffix, 3 * len(data), ' '.join(f(x) for v in data for x in v), gid, suffix, len(data)))
        o.append('<vertices id="%s-vtx"><input semantic="POSITION" source="#%s-pos"/></vertices>' % (gid, gid))
        for p in g['prims']:
            mat = '' if p['sym'] is None else ' material="%s"' % p['sym']
            inputs = '<input semantic="VERTEX" source="#%s-vtx" offset="0"/>' % gid
            if p['normals']:
                inputs += '<input semantic="NORMAL" source="#%s-nrm" offset="1"/>' % gid
            flat = lambda grp: ' '.join(str(i) for corner in grp for i in corner)
            k = p['kind']
            if k in ('triangles', 'lines'):
                body = '<p>%s</p>' % ' '.join(flat(grp) for grp in p['groups'])
            elif k == 'polylist':
                body = '<vcount>%s</vcount><p>%s</p>' % (' '.join(str(len(grp)) for grp in p['groups']),
                                                        ' '.join(flat(grp) for grp in p['groups']))
            else:   # polygons, tristrips, trifans: one <p> per group
                body = ''.join('<p>%s</p>' % flat(grp) for grp in p['groups'])
            o.append('<%s count="%d"%s>%s%s</%s>' % (k, len(p['groups']), mat, inputs, body, k))
        o.append('</mesh></geometry>')
    o.append('</library_geometries>')
    if case['ctrls']:
        o.append('<library_controllers>')
        for ci, c in enumerate(case['ctrls']):
            cid = 'c%d' % ci
            nv = len(case['geoms'][c['geom']]['verts'])
            bsm = '' if c['bsm'] is None else '<bind_shape_matrix>%s</bind_shape_matrix>' % ' '.join(f(x) for x in c['bsm'])
            o.append('<controller id="%s"><skin source="#g%d">%s' % (cid, c['geom'], bsm))
            o.append('<source id="%s-j"><Name_array id="%s-ja" count="1">joint0</Name_array><technique_common><accessor source="#%s-ja" '
                     'count="1" stride="1"><param name="JOINT" type="Name"/></accessor></technique_common></source>' % (cid, cid, cid))
            o.append('<source id="%s-m"><float_array id="%s-ma" count="16">1 0 0 0 0 1 0 0 0 0 1 0 0 0 0 1</float_array><technique_common>'
                     '<accessor source="#%s-ma" count="1" stride="16"><param name="TRANSFORM" type="float4x4"/></accessor>'
                     '</technique_common></source>' % (cid, cid, cid))
            o.append('<source id="%s-w"><float_array id="%s-wa" count="1">1</float_array><technique_common><accessor source="#%s-wa" '
                     'count="1" stride="1"><param name="WEIGHT" type="float"/></accessor></technique_common></source>' % (cid, cid, cid))
            o.append('<joints><input semantic="JOINT" source="#%s-j"/><input semantic="INV_BIND_MATRIX" source="#%s-m"/></joints>' % (cid, cid))
            o.append('<vertex_weights count="%d"><input semantic="JOINT" source="#%s-j" offset="0"/><input semantic="WEIGHT" '
                     'source="#%s-w" offset="1"/><vcount>%s</vcount><v>%s</v></vertex_weights>'
                     % ((nv, cid, cid, ' '.join(['1'] * nv), ' '.join(['0 0'] * nv)) if (ci + nv) % 3 else (0, cid, cid, '', '')))      # (every third skin weights no vertex at all: an empty controller is a controller)
            o.append('</skin></controller>')
        o.append('</library_controllers>')
    counter = [0]

    def binds_xml(binds):
        if not binds:
            return ''
        return '<bind_material><technique_common>%s</technique_common></bind_material>' % ''.join(
            '<instance_material symbol="%s" target="#m%d"/>' % (s, m) for s, m in binds)

    def rn(node, nid=None):
        k = node[0]
        if k == 'n':
            counter[0] += 1
            attrs = ' id="%s"' % nid if nid else (' id="n%d"' % counter[0] if counter[0] % 3 else '')
            tr = '' if node[1] is None else '<matrix>%s</matrix>' % ' '.join(f(x) for x in node[1])
            return '<node%s>%s%s</node>' % (attrs, tr, ''.join(rn(ch) for ch in node[2]))
        if k == 'ig':
            return '<instance_geometry url="#g%d">%s</instance_geometry>' % (node[1], binds_xml(node[2]))
        if k == 'ic':
            return '<instance_controller url="#c%d">%s</instance_controller>' % (node[1], binds_xml(node[2]))
        if k == 'il':
            return '<instance_light url="#l%d"/>' % node[1]
        if k == 'ik':
            return '<instance_camera url="#k%d"/>' % node[1]
        if k == 'r':
            return '<instance_node url="#N%d"/>' % node[1]
        raise AssertionError('xml mode places shared nodes only as scene roots')
    rooted = set(r[1] for r in case['roots'] if r[0] == 's')
    libs = [i for i in range(len(case['shared'])) if i not in rooted]
    if libs:
        o.append('<library_nodes>')
        # definition order is irrelevant to the traversal: later-defined first exercises the loader's retry
        order = list(libs)
        if st[0] % 2:
            order.reverse()
        for i in order:
            o.append(rn(case['shared'][i], 'N%d' % i))
        o.append('</library_nodes>')
    o.append('<library_visual_scenes><visual_scene id="vs">')
    for r in case['roots']:
        if r[0] == 's':
            o.append(rn(case['shared'][r[1]], 'N%d' % r[1]))
        else:
            o.append(rn(r))
    o.append('</visual_scene></library_visual_scenes>')
    o.append('<scene><instance_visual_scene url="#vs"/></scene></COLLADA>')
    return '\n'.join(o).encode('utf-8')


def build(case):
    from vlib import prelude
    prelude.touch()             # other instances were made and bound before this scene
    if case['mode'] == 'ctor':
        return build_ctor(case)
    import collada
    return collada.Collada(io.BytesIO(render_xml(case)))


# ----------------------------------------------------------------------------- canonical forms

def ints(arr):
    """exact integers of a numpy array (or a marker token that can never match the model)"""
    import numpy
    out = []
    for x in numpy.asarray(arr).ravel().tolist():
        if isinstance(x, int):
            out.append(str(x))
        elif x == x and abs(x) != float('inf') and float(x).is_integer():
            out.append(str(int(x)))
        else:
            out.append('%r!' % x)
    return ','.join(out)


def idnum(obj, prefix):
    i = getattr(obj, 'id', None)
    return i[len(prefix):] if isinstance(i, str) and i.startswith(prefix) else '?%r' % i


def show_prims(bound_prims):
    out = []
    for bp in bound_prims:
        mat = 'None' if bp.material is None else idnum(bp.material, 'm')
        v = 'None' if bp.vertex is None else ints(bp.vertex)
        n = 'None' if bp.normal is None else ints(bp.normal)
        out.append('{mat=%s v=%s n=%s i=%s}' % (mat, v, n, ints(bp.index)))
    return ''.join(out)


def show_pose(o):
    f = lambda a: '-' if a is None else ints(a)
    return 'pos=%s dir=%s' % (f(getattr(o, 'position', None)), f(getattr(o, 'direction', None)))


def impl_answer(doc, kind):
    objs = list(doc.scene.objects(kind))
    es = []
    for o in objs:
        if kind == 'geometry':
            es.append('[m=%s g=%s %s]' % (ints(o.matrix), idnum(o.original, 'g'), show_prims(o.primitives())))
        elif kind == 'controller':
            es.append('[m=%s c=%s gm=%s %s]' % (ints(o.matrix), idnum(o.skin, 'c'), ints(o.geometry.matrix),
                                               show_prims(o.geometry.primitives())))
        elif kind == 'light':
            ms = 'm=%s ' % ints(o.matrix) if type(o).__name__ == 'BoundSpotLight' else ''
            es.append('[%sl=%s %s]' % (ms, idnum(o.original, 'l'), show_pose(o)))
        else:
            es.append('[m=%s k=%s %s]' % (ints(o.matrix), idnum(o.original, 'k'), show_pose(o)))
    return 'ok %d%s%s' % (len(es), ' ' if es else '', ' '.join(es)), objs


def unbound_index(doc, case):
    """index arrays of the unbound primitives, read BEFORE any traversal (what binding must leave unchanged)"""
    out = []
    for gi, g in enumerate(case['geoms']):
        geom = doc.geometries['g%d' % gi]
        out.append([[int(x) for x in p.index.ravel().tolist()] for p in geom.primitives])
    return out


def request_lines(case, uidx):
    """the four protocol lines (one per kind) for lean/drv/C12.lean"""
    w = ['G', str(len(case['geoms']))]
    for gi, g in enumerate(case['geoms']):
        w += ['g', str(len(g['prims']))]
        for pi, p in enumerate(g['prims']):
            w += ['p', '_' if p['sym'] is None else p['sym'], str(len(g['verts']))]
            w += [str(x) for v in g['verts'] for x in v]
            if p['normals']:
                w += [str(len(g['norms']))] + [str(x) for v in g['norms'] for x in v]
            else:
                w += ['-1']
            ix = uidx[gi][pi]
            w += [str(len(ix))] + [str(x) for x in ix]
    w += ['C', str(len(case['ctrls']))]
    for c in case['ctrls']:
        w += ['c', str(c['geom'])] + [str(x) for x in (c['bsm'] or ID16)]
    w += ['L', str(len(case['lights']))] + list(case['lights'])

    def node(n):
        k = n[0]
        if k == 'n':
            out = ['n'] + [str(x) for x in (n[1] or ID16)] + [str(len(n[2]))]
            for ch in n[2]:
                out += node(ch)
            return out
        if k in ('ig', 'ic'):
            out = [k, str(n[1]), str(len(n[2]))]
            for s, m in n[2]:
                out += [s, str(m)]
            return out
        return [k, str(n[1])]
    w += ['N', str(len(case['shared']))]
    for s in case['shared']:
        w += node(s)
    w += ['R', str(len(case['roots']))]
    for r in case['roots']:
        w += node(r)
    return ['objs %s %s' % (k, ' '.join(w)) for k in KINDS]


# ----------------------------------------------------------------------------- direct oracle on the implementation

def veq(arr, expected):
    import numpy
    a = numpy.asarray(arr, dtype=numpy.float64).ravel().tolist()
    e = [x for row in expected for x in (row if isinstance(row, (list, tuple)) else [row])]
    return len(a) == len(e) and all(x == y for x, y in zip(a, e))


def check_prims(case, gi, bound_prims, m, binds, uidx, where):
    g = case['geoms'][gi]
    if len(bound_prims) != len(g['prims']):
        return ('bind:primitive-count', '%s: %d bound primitives for %d primitives' % (where, len(bound_prims), len(g['prims'])))
    for pi, (bp, p) in enumerate(zip(bound_prims, g['prims'])):
        w = '%s primitive %d (%s)' % (where, pi, p['kind'])
        ev = [apply_point(m, v) for v in g['verts']]
        if bp.vertex is None or not veq(bp.vertex, ev):
            return ('bind:vertex', '%s: bound vertices %s, expected R.v+t = %s' % (w, None if bp.vertex is None else bp.vertex.tolist(), ev))
        if p['normals']:
            en = [apply_dir(m, v) for v in g['norms']]
            if bp.normal is None or not veq(bp.normal, en):
                return ('bind:normal', '%s: bound normals %s, expected R.n = %s' % (w, None if bp.normal is None else bp.normal.tolist(), en))
        elif bp.normal is not None:
            return ('bind:normal', '%s: bound normals present for a primitive without normals' % w)
        if [int(x) for x in bp.index.ravel().tolist()] != uidx[gi][pi]:
            return ('bind:index', '%s: index array changed by binding: %s vs %s' % (w, bp.index.ravel().tolist(), uidx[gi][pi]))
        em = expected_material(binds, p['sym'])
        got = None if bp.material is None else getattr(bp.material, 'id', '?')
        if got != (None if em is None else 'm%d' % em):
            return ('bind:material', '%s: material %r for symbol %r under bindings %s, expected %r'
                    % (w, got, p['sym'], binds, None if em is None else 'm%d' % em))
    return None


def oracle(case, doc, uidx):
    """returns None or (signature-suffix, description)"""
    for kind in KINDS:
        exp = enum_paths(case, kind)
        try:
            objs = list(doc.scene.objects(kind))
        except Exception as e:
            return ('scene:%s:raises' % kind, 'scene.objects(%r) raised %s' % (kind, type(e).__name__))
        prefix = {'geometry': 'g', 'light': 'l', 'camera': 'k', 'controller': 'c'}[kind]
        got_ids = [getattr(o.skin if kind == 'controller' else o.original, 'id', None) for o in objs]
        exp_ids = ['%s%d' % (prefix, leaf[1]) for _, leaf in exp]
        if len(objs) != len(exp):
            return ('scene:count', 'scene.objects(%r) yields %d objects %s for %d instance paths %s' % (kind, len(objs), got_ids, len(exp), exp_ids))
        if got_ids != exp_ids:
            return ('scene:order', 'scene.objects(%r) yields %s, document order of the instance paths is %s' % (kind, got_ids, exp_ids))
        # same objects with the right matrices but in another order is an order failure, not a matrix failure
        gm = [(i, ints(o.matrix)) for i, o in zip(got_ids, objs) if hasattr(o, 'matrix')]
        em = [(i, ','.join(str(x) for x in path_product(mats))) for i, (mats, _) in zip(exp_ids, exp)]
        if len(gm) == len(em) and gm != em and sorted(gm) == sorted(em):
            return ('scene:order', 'scene.objects(%r) yields the expected objects in another order: (id, matrix) %s, document order is %s'
                    % (kind, gm, em))
        for n, (o, (mats, leaf)) in enumerate(zip(objs, exp)):
            m = path_product(mats)
            where = '%s object %d (%s%d, path of %d nodes)' % (kind, n, prefix, leaf[1], len(mats))
            if hasattr(o, 'matrix') and not veq(o.matrix, m):
                return ('scene:matrix', '%s: matrix %s, product of the node matrices on the path is %s' % (where, ints(o.matrix), m))
            if kind == 'geometry':
                bad = check_prims(case, leaf[1], list(o.primitives()), m, leaf[2], uidx, where)
                if bad:
                    return bad
            elif kind == 'controller':
                c = case['ctrls'][leaf[1]]
                mm = mmul(m, c['bsm'] or ID16)
                if not veq(o.geometry.matrix, mm):
                    return ('ctrl:matrix', '%s: skin geometry bound with %s, expected M.bind_shape = %s' % (where, ints(o.geometry.matrix), mm))
                bad = check_prims(case, c['geom'], list(o.geometry.primitives()), mm, leaf[2], uidx, where)
                if bad:
                    return bad
            else:
                lk = case['lights'][leaf[1]] if kind == 'light' else 'camera'
                pos = apply_point(m, [0, 0, 0])
                dr = apply_dir(m, [0, 0, -1])
                want = dict(point=(pos, None), spot=(pos, dr), directional=(None, dr), ambient=(None, None), camera=(pos, dr))[lk]
                for attr, e in zip(('position', 'direction'), want):
                    a = getattr(o, attr, None)
                    if e is None:
                        continue
                    if a is None or not veq(a, e):
                        return ('%s:pose' % kind, '%s (%s): %s %s, expected %s' % (where, lk, attr, None if a is None else a.tolist(), e))
    # binding must not have modified the unbound data
    for gi, g in enumerate(case['geoms']):
        geom = doc.geometries['g%d' % gi]
        for pi, p in enumerate(geom.primitives):
            if [int(x) for x in p.index.ravel().tolist()] != uidx[gi][pi] or not veq(p.vertex, g['verts']) or \
                    (p.normal is not None and not veq(p.normal, g['norms'])):
                return ('bind:mutates-original', 'geometry g%d primitive %d: traversal changed the unbound primitive' % (gi, pi))
    return None


def run_case(case):
    """(doc, unbound index snapshot, oracle result); load/constructor failures count as oracle failures"""
    try:
        doc = build(case)
        uidx = unbound_index(doc, case)
    except Exception as e:
        return None, None, ('build:%s' % case['mode'], 'building the scene (%s) raised %s: %s' % (case['mode'], type(e).__name__, e))
    return doc, uidx, oracle(case, doc, uidx)


def pair_instances(case, doc, nodes=None):
    """(leaf of the case, GeometryNode/ControllerNode of the document) pairs, every object once; `nodes` collects the (case node, Node) pairs"""
    pairs, seen = [], set()

    def walk(cn, on):
        if cn[0] == 'n':
            if nodes is not None and id(on) not in seen:
                seen.add(id(on))
                nodes.append((cn, on))
            for c, o in zip(cn[2], list(on.children)):
                walk(c, o)
        elif cn[0] in ('ig', 'ic') and id(on) not in seen:
            seen.add(id(on))
            pairs.append((cn, on))
    top = dict((getattr(n, 'id', None), n) for n in list(doc.scene.nodes) + list(doc.nodes))
    for i, sh in enumerate(case['shared']):
        if 'N%d' % i in top:
            walk(sh, top['N%d' % i])
    for r, o in zip(case['roots'], doc.scene.nodes):
        if r[0] not in ('s', 'r'):
            walk(r, o)
    return pairs


def abandon_then_traverse(case, doc, uidx, eseed):
    """start traversals and drop them part-way (break out of a for loop, next() once or twice, two traversals interleaved),
    then traverse completely: the complete traversal must be what it always is. Returns None or (signature, description)."""
    import random
    r = random.Random('c12ab/%s' % eseed)
    hist = []
    for _ in range(r.randint(1, 3)):
        kind = r.choice(KINDS)
        total = len(enum_paths(case, kind))
        if total == 0:
            continue
        k = r.randint(1, total)
        how = r.choice(['break', 'next', 'interleave'])
        if how == 'break':
            for i, _o in enumerate(doc.scene.objects(kind)):
                if i + 1 >= k:
                    break
        elif how == 'next':
            it = doc.scene.objects(kind)
            for _i in range(min(k, 2)):
                next(it, None)
            del it
        else:
            a, b = doc.scene.objects(kind), doc.scene.objects(r.choice(KINDS))
            for _i in range(k):
                next(a, None)
                next(b, None)
            del a, b
        hist.append('%s %s after %d of %d' % (how, kind, k, total))
    if not hist:
        return 'skip'
    import gc
    gc.collect()
    bad = oracle(case, doc, uidx)
    if bad:
        return ('abandoned:' + bad[0], 'after traversals that were dropped part-way (%s) a complete traversal is wrong: %s' % ('; '.join(hist), bad[1]))
    return None


def retraverse(case, doc, uidx, eseed):
    """the scene has been traversed; now edit binding tables of its instances and traverse again: the second traversal
    must reflect the edited tables. Returns None or (signature, description)."""
    import random
    from collada import scene
    r = random.Random('c12re/%s' % eseed)
    c2 = copy.deepcopy(case)
    npairs = []
    pairs = pair_instances(c2, doc, npairs)
    hist = []
    # new instances below nodes that were traversed before (also below shared nodes, also of a kind the subtree did not hold so far)
    for cn, on in npairs:
        if r.random() < 0.3:
            k = r.choice(['light', 'camera', 'geometry'])
            if k == 'light' and case['lights']:
                i = r.randrange(len(case['lights']))
                cn[2].append(['il', i])
                on.children.append(scene.LightNode(doc.lights['l%d' % i]))
            elif k == 'camera' and case['cams']:
                i = r.randrange(len(case['cams']))
                cn[2].append(['ik', i])
                on.children.append(scene.CameraNode(doc.cameras['k%d' % i]))
            elif k == 'geometry':
                i = r.randrange(len(case['geoms']))
                b = gen_binds(r, case['nmat'])
                cn[2].append(['ig', i, b])
                on.children.append(scene.GeometryNode(doc.geometries['g%d' % i], [scene.MaterialNode(s_, doc.materials['m%d' % m_], []) for s_, m_ in b])
                                   if b else scene.GeometryNode(doc.geometries['g%d' % i]))
            else:
                continue
            hist.append('add-' + k)
    if not pairs and not hist:
        return 'skip'
    for cn, on in pairs:
        if r.random() < 0.35:
            continue
        k = r.choice(['append', 'delete', 'symbol', 'target', 'replace'])
        if k == 'append' or not cn[2]:
            s, m = r.choice(BIND_SYMS), r.randrange(case['nmat'])
            on.materials.append(scene.MaterialNode(s, doc.materials['m%d' % m], []))
            cn[2].append([s, m])
            k = 'append'
        elif k == 'delete':
            i = r.randrange(len(cn[2]))
            del on.materials[i]
            del cn[2][i]
        elif k == 'symbol':
            i = r.randrange(len(cn[2]))
            on.materials[i].symbol = cn[2][i][0] = r.choice(BIND_SYMS)
        elif k == 'target':
            i = r.randrange(len(cn[2]))
            m = r.randrange(case['nmat'])
            on.materials[i].target = doc.materials['m%d' % m]
            cn[2][i][1] = m
        else:
            new = gen_binds(r, case['nmat'])
            on.materials = [scene.MaterialNode(s_, doc.materials['m%d' % m_], []) for s_, m_ in new]
            cn[2][:] = new
        hist.append(k)
    if not hist:
        return 'skip'
    bad = oracle(c2, doc, uidx)
    if bad:
        return ('retraverse:' + bad[0], 'after a traversal, binding tables were edited (%s) and the scene traversed again: %s' % (','.join(hist), bad[1]))
    return None


# ----------------------------------------------------------------------------- shrinking

def _variants(node):
    """smaller versions of one node"""
    if node[0] == 'n':
        if node[1] is not None:
            yield ['n', None, node[2]]
        for i in range(len(node[2])):
            yield ['n', node[1], node[2][:i] + node[2][i + 1:]]
        for i, ch in enumerate(node[2]):
            for v in _variants(ch):
                yield ['n', node[1], node[2][:i] + [v] + node[2][i + 1:]]
    elif node[0] in ('ig', 'ic'):
        for i in range(len(node[2])):
            yield [node[0], node[1], node[2][:i] + node[2][i + 1:]]


def shrink(case, pred, maxsteps=400):
    steps = 0
    changed = True
    while changed and steps < maxsteps:
        changed = False
        cands = []
        for i in range(len(case['roots'])):
            if len(case['roots']) > 1:
                cands.append(('roots', case['roots'][:i] + case['roots'][i + 1:]))
            for v in _variants(case['roots'][i]):
                cands.append(('roots', case['roots'][:i] + [v] + case['roots'][i + 1:]))
        for i in range(len(case['shared'])):
            for v in _variants(case['shared'][i]):
                cands.append(('shared', case['shared'][:i] + [v] + case['shared'][i + 1:]))
        for gi, g in enumerate(case['geoms']):
            for pi in range(len(g['prims'])):
                if len(g['prims']) > 1:
                    g2 = dict(g, prims=g['prims'][:pi] + g['prims'][pi + 1:])
                    cands.append(('geoms', case['geoms'][:gi] + [g2] + case['geoms'][gi + 1:]))
        for key, val in cands:
            steps += 1
            c2 = dict(case)
            c2[key] = val
            try:
                ok = pred(c2)
            except Exception:
                ok = False
            if ok:
                case = c2
                changed = True
                break
            if steps >= maxsteps:
                break
    return case


# ----------------------------------------------------------------------------- entry points

def features(case):
    """what the generator reached (for the evidence histogram) and whether the case is non-trivial"""
    f = set()
    depth = [0]
    refs = [0]

    def walk(node, d, via_ref):
        depth[0] = max(depth[0], d)
        if node[0] == 'n':
            f.add('node:matrix' if node[1] is not None else 'node:no-transform')
            if node[1] is not None and node[1][12:] != [0, 0, 0, 1]:
                f.add('node:non-affine')
            f.add('fanout:%d' % len(node[2]))
            for ch in node[2]:
                walk(ch, d + 1, via_ref)
        elif node[0] in ('r', 's'):
            refs[0] += 1
            f.add('ref:nested' if via_ref else 'ref:%s' % ('instance_node' if node[0] == 'r' else 'same-object'))
            if d == 0:
                f.add('root:%s' % ('instance_node' if node[0] == 'r' else 'shared-node'))
            if d < 12:
                walk(case['shared'][node[1]], d, True)
        else:
            f.add('inst:%s' % node[0])
            if d == 0:
                f.add('root:instance')
            if node[0] in ('ig', 'ic'):
                syms = [s for s, _ in node[2]]
                if len(set(syms)) < len(syms):
                    f.add('binds:duplicate-symbol')
                if not syms:
                    f.add('binds:none')
                if any(s in ('zz', 'yy') for s in syms):
                    f.add('binds:surplus')
    for r in case['roots']:
        walk(r, 0, False)
    for g in case['geoms']:
        for p in g['prims']:
            f.add('prim:%s' % p['kind'])
            f.add('prim:%s' % ('normals' if p['normals'] else 'no-normals'))
            if p['sym'] is None:
                f.add('prim:no-symbol')
    for k in case['lights']:
        f.add('light:%s' % k)
    f.add('depth:%d' % min(depth[0], 7))
    if case['mode'] == 'xml':
        pos = {r[1]: i for i, r in enumerate(case['roots']) if r[0] == 's'}

        def mentions(node):
            if node[0] == 'n':
                return set().union(*[mentions(ch) for ch in node[2]]) if node[2] else set()
            return {node[1]} if node[0] == 'r' else set()
        for i, r in enumerate(case['roots']):
            if r[0] != 's':
                for t in mentions(r):
                    if t in pos:
                        f.add('rootref:%s' % ('forward' if pos[t] > i else 'backward'))
    return f, refs[0]


def run(ctx):
    ctx.rule = ('random scene graphs: 1-3 roots plus up to 4 shared nodes, height <= 6 through nesting and references, fan-out 0-4, '
                'each node with no transform or one integer MatrixTransform (translation, signed permutation, scale, dense affine, '
                'dense 4x4 with arbitrary last row; entries in [-3,3]); shared nodes instantiated several times through '
                'instance_node/NodeNode, nested, placed as scene roots and referenced forward/backward (xml) or put under several '
                'parents as the same object (ctor); 1-3 geometries with 1-3 primitives of every kind (tristrips/trifans in xml), with '
                'and without normals and symbols; binding tables of 0-5 entries with duplicate and surplus symbols; all light and '
                'camera kinds; skins with integer bind-shape matrices (xml). Cases whose partial sums could leave the exact float32 '
                'range are regenerated. Half the cases are built with constructors, half rendered to XML and loaded. A case is '
                'non-trivial when it has a reference to a shared node or a path of >= 2 matrices and yields >= 2 objects; distinct = '
                'distinct case description')
    ncases = ctx.n(1200, 8000)
    cases = [gen_valid_case(ctx.rng, 'ctor' if i % 2 else 'xml') for i in range(ncases)]
    built = []
    lines = []
    for c in cases:
        doc, uidx, bad = run_case(c)
        built.append((doc, uidx, bad))
        if doc is not None:
            lines.extend(request_lines(c, uidx))
    # malformed stream: the driver must reject, the implementation must yield nothing for an unknown kind
    malformed = []
    if lines:
        base = lines[0]
        malformed = [base.replace('objs geometry', 'objs extra', 1), base[:len(base) // 2], base + ' 7',
                     'objs light G 0 C 0 L 0 N 0 R 1 r 0', 'objs light G 0 C 0 L 0 N 1 r 0 R 0', '', 'objs', 'objs camera G x']
    model = ctx.driver('C12', lines + malformed) if ctx.lean_ok else None
    if model is not None:
        for req, ans in zip(malformed, model[len(lines):]):
            ctx.count('malformed:' + ('rejected' if ans == 'bad-op' else 'ACCEPTED'))
            if ans != 'bad-op':
                ctx.violation('corr:driver:malformed', 'driver accepted malformed request %r -> %r' % (req[:80], ans[:80]),
                              dict(kind='driver', line=req), found_input=False)
    pos = 0
    nre = 0
    reported = set()
    for c, (doc, uidx, bad) in zip(cases, built):
        f, nrefs = features(c)
        npaths = sum(len(enum_paths(c, k)) for k in KINDS)
        maxlen = max([len(m) for k in KINDS for m, _ in enum_paths(c, k)] or [0])
        ctx.case(c, nontrivial=(nrefs > 0 or maxlen >= 2) and npaths >= 2)
        ctx.count('mode:' + c['mode'])
        ctx.count('objects', npaths)
        for k in f:
            ctx.count(k)
        if doc is not None:
            try:
                if list(doc.scene.objects('extra-kind')):
                    bad = bad or ('scene:unknown-kind', 'scene.objects of an unknown kind yields objects')
            except Exception as e:
                bad = bad or ('scene:unknown-kind', 'scene.objects of an unknown kind raised %s' % type(e).__name__)
        if bad:
            sig = 'c12:' + bad[0]
            if sig not in reported:
                reported.add(sig)
                key = bad[0]
                small = shrink(c, lambda cc: (run_case(cc)[2] or ('', ''))[0] == key)
                b2 = run_case(small)[2] or bad
                ctx.violation(sig, b2[1], dict(kind='oracle', case=small), found_input=True)
        elif model is not None:
            want = model[pos:pos + 4]
            got = []
            for k in KINDS:
                try:
                    got.append(impl_answer(doc, k)[0])
                except Exception as e:
                    got.append('raw:' + type(e).__name__)
            if want != got:
                i = next(j for j in range(4) if want[j] != got[j])
                sig = 'corr:c12:%s' % KINDS[i]
                if sig not in reported:
                    reported.add(sig)
                    ctx.violation(sig, 'correspondence Pyc.Scene.sceneObjects/bind* <-> Scene.objects(%r) broke (%s graph): model %r, '
                                  'implementation %r; the direct oracle found no failing input on this case (the theorems of '
                                  'Pyc/Props/C12.lean no longer describe the code)' % (KINDS[i], c['mode'], want[i][:300], got[i][:300]),
                                  dict(kind='correspondence', case=c, model=want, impl=got), found_input=False)
        if doc is not None:
            pos += 4
        if doc is not None and not bad and nre < ctx.n(300, 2000):
            eseed = ctx.rng.randrange(10 ** 9)
            try:
                ab = abandon_then_traverse(c, doc, uidx, eseed)
            except Exception as e:
                ab = ('abandoned:raises', 'dropping a traversal part-way and traversing again raised %s: %s' % (type(e).__name__, e))
            if ab != 'skip':
                ctx.count('abandoned-traversal')
                if ab and 'c12:' + ab[0] not in reported:
                    reported.add('c12:' + ab[0])
                    ctx.violation('c12:' + ab[0], ab[1], dict(kind='abandon', case=c, eseed=eseed), found_input=True)
                    continue
            try:
                rb = retraverse(c, doc, uidx, eseed)
            except Exception as e:
                rb = ('retraverse:raises', 'editing binding tables and traversing again raised %s: %s' % (type(e).__name__, e))
            if rb != 'skip':
                nre += 1
                ctx.count('retraverse')
                if rb and 'c12:' + rb[0] not in reported:
                    reported.add('c12:' + rb[0])
                    ctx.violation('c12:' + rb[0], rb[1], dict(kind='retraverse', case=c, eseed=eseed), found_input=True)
    ctx.assumptions.append('float32 arithmetic is exact on the generated integer cases (every partial sum < 2^23); '
                           'ElementTree parsing and numpy dot/asmatrix semantics are modelled, not verified')


def replay(ctx, rep):
    if rep.get('kind') == 'abandon':
        doc, uidx, bad = run_case(rep['case'])
        ab = abandon_then_traverse(rep['case'], doc, uidx, rep['eseed']) if doc is not None and not bad else None
        if ab and ab != 'skip':
            print('  ' + ab[1])
        return bool(ab) and ab != 'skip'
    if rep.get('kind') == 'retraverse':
        doc, uidx, bad = run_case(rep['case'])
        rb = retraverse(rep['case'], doc, uidx, rep['eseed']) if doc is not None and not bad else None
        if rb and rb != 'skip':
            print('  ' + rb[1])
        return bool(rb) and rb != 'skip'
    if rep.get('kind') not in ('oracle', 'correspondence'):
        print('  nothing to re-run on the implementation for %r' % rep.get('kind'))
        return False
    case = rep['case']
    bad = run_case(case)[2]
    if bad:
        print('  ' + bad[1])
    return bad is not None
